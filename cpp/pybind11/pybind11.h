// STAND-IN for <pybind11/pybind11.h>  (NOT the real pybind11)
//
// Purpose: let /repo/bblean/csrc/similarity.cpp compile *unmodified* into a
// plain shared library without Python.h / pybind11, so that its kernels can be
// called through ctypes on raw (possibly misaligned) buffers.
//
// Only the subset of the API that similarity.cpp touches is provided:
//   py::ssize_t, py::print, py::tuple, py::make_tuple, py::arg (+ "= default"),
//   py::module_ (doc(), def()), PYBIND11_MODULE, py::none, py::handle/object,
//   py::index_error / value_error / type_error / error_already_set,
//   and the CPython bits PyErr_WarnEx / PyExc_RuntimeWarning.
// The ndarray type (py::array, py::array_t, py::buffer_info) is in numpy.h.
//
// Nothing in here implements kernel logic; it only carries pointers/shapes.
#pragma once

// The real pybind11 headers pull in (transitively) most of the standard
// library; similarity.cpp relies on that (std::memset, std::array,
// std::numeric_limits are used without their own #include).
#include <any>
#include <array>
#include <cstddef>
#include <cstdint>
#include <cstdlib>
#include <cstring>
#include <initializer_list>
#include <limits>
#include <memory>
#include <optional>
#include <sstream>
#include <stdexcept>
#include <string>
#include <tuple>
#include <type_traits>
#include <utility>
#include <vector>

#define BB_PYBIND11_STANDIN 1

// ---------------------------------------------------------------------------
// Minimal CPython C-API surface used by similarity.cpp (jt_isim_from_sum)
// ---------------------------------------------------------------------------
struct _bb_standin_object {
    const char* name;
};
typedef _bb_standin_object PyObject;

namespace pybind11 {
namespace standin {
// Text emitted through py::print (only used when compiled with -DDEBUG_LOGS=1)
inline std::string& print_log() {
    static std::string s;
    return s;
}
// Warnings raised through PyErr_WarnEx: "<Category>: <message>\n" per warning
inline std::string& warn_log() {
    static std::string s;
    return s;
}
inline PyObject* runtime_warning_object() {
    static PyObject o{"RuntimeWarning"};
    return &o;
}
}  // namespace standin
}  // namespace pybind11

#define PyExc_RuntimeWarning (::pybind11::standin::runtime_warning_object())

// Records the warning (retrievable from the shim); returns 0 like CPython does
// when the warning is not turned into an exception.
inline int PyErr_WarnEx(PyObject* category, const char* message,
                        std::ptrdiff_t /*stack_level*/) {
    auto& log = ::pybind11::standin::warn_log();
    log += (category && category->name) ? category->name : "Warning";
    log += ": ";
    log += message ? message : "";
    log += "\n";
    return 0;
}

namespace pybind11 {

using ssize_t = std::ptrdiff_t;
using size_t = std::size_t;

// ---------------------------------------------------------------------------
// Exceptions (same names and std bases as the real ones)
// ---------------------------------------------------------------------------
#define BB_STANDIN_EXC(name)                                  \
    class name : public std::runtime_error {                  \
    public:                                                   \
        using std::runtime_error::runtime_error;              \
        name() : std::runtime_error("") {}                    \
    };
BB_STANDIN_EXC(builtin_exception)
BB_STANDIN_EXC(index_error)
BB_STANDIN_EXC(value_error)
BB_STANDIN_EXC(type_error)
BB_STANDIN_EXC(key_error)
BB_STANDIN_EXC(buffer_error)
BB_STANDIN_EXC(cast_error)
BB_STANDIN_EXC(error_already_set)
#undef BB_STANDIN_EXC

[[noreturn]] inline void pybind11_fail(const char* reason) {
    throw std::runtime_error(reason);
}
[[noreturn]] inline void pybind11_fail(const std::string& reason) {
    throw std::runtime_error(reason);
}

// ---------------------------------------------------------------------------
// handle / object / none: empty place holders
// ---------------------------------------------------------------------------
class handle {
public:
    handle() = default;
    PyObject* ptr() const { return nullptr; }
    explicit operator bool() const { return false; }
};
class object : public handle {
public:
    object() = default;
};
class none : public object {
public:
    none() = default;
};

// ---------------------------------------------------------------------------
// py::print: appends to standin::print_log() (space separated, newline ended)
// ---------------------------------------------------------------------------
template <typename... Args>
void print(Args&&... args) {
    std::ostringstream os;
    bool first = true;
    auto put = [&](auto&& v) {
        if (!first) os << ' ';
        first = false;
        using V = std::decay_t<decltype(v)>;
        if constexpr (std::is_same_v<V, bool>) {
            os << (v ? "True" : "False");
        } else {
            os << v;
        }
    };
    (put(std::forward<Args>(args)), ...);
    os << '\n';
    standin::print_log() += os.str();
}

// ---------------------------------------------------------------------------
// py::tuple / py::make_tuple: a vector of std::any holding the C++ values
// ---------------------------------------------------------------------------
class tuple : public object {
public:
    class item {
    public:
        explicit item(const std::any* a) : a_(a) {}
        template <typename T>
        T cast() const {
            const T* p = std::any_cast<T>(a_);
            if (!p) throw cast_error("stand-in tuple: bad item cast");
            return *p;
        }

    private:
        const std::any* a_;
    };
    tuple() = default;
    size_t size() const { return items_.size(); }
    item operator[](size_t i) const {
        if (i >= items_.size()) throw index_error("tuple index out of range");
        return item(&items_[i]);
    }
    std::vector<std::any> items_;
};

template <typename... Args>
tuple make_tuple(Args&&... args) {
    tuple t;
    t.items_.reserve(sizeof...(Args));
    (t.items_.emplace_back(std::decay_t<Args>(std::forward<Args>(args))), ...);
    return t;
}

// ---------------------------------------------------------------------------
// py::arg("name") and py::arg("name") = default_value
// ---------------------------------------------------------------------------
struct arg_v;
struct arg {
    constexpr explicit arg(const char* n = nullptr) : name(n) {}
    template <typename T>
    arg_v operator=(T&& value) const;
    arg& noconvert(bool = true) { return *this; }
    arg& none(bool = true) { return *this; }
    const char* name;
};
struct arg_v : arg {
    explicit arg_v(const arg& base) : arg(base) {}
};
template <typename T>
arg_v arg::operator=(T&&) const {
    return arg_v(*this);
}
namespace literals {
constexpr arg operator"" _a(const char* name, std::size_t) { return arg(name); }
}  // namespace literals

// ---------------------------------------------------------------------------
// py::module_: def() is a no-op that accepts anything, doc() is assignable
// ---------------------------------------------------------------------------
class module_ : public object {
public:
    struct doc_proxy {
        template <typename T>
        doc_proxy& operator=(T&&) {
            return *this;
        }
    };
    doc_proxy doc() { return {}; }
    template <typename Func, typename... Extra>
    module_& def(const char* /*name*/, Func&& /*f*/, const Extra&... /*extra*/) {
        ++n_defs;
        return *this;
    }
    template <typename T>
    module_& add_object(const char*, T&&, bool = false) {
        return *this;
    }
    int n_defs{0};
};
using module = module_;

}  // namespace pybind11

// An ordinary function; the m.def(...) calls inside it compile but do nothing.
// [[maybe_unused]] keeps -Wall quiet when nobody calls it.
#define PYBIND11_MODULE(name, variable)                                     \
    [[maybe_unused]] static void pybind11_init_##name(::pybind11::module_&  \
                                                          variable)
