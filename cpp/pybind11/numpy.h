// STAND-IN for <pybind11/numpy.h>  (NOT the real pybind11)
//
// py::array_t<T, flags> here is a plain C-contiguous ndarray *value*:
//   data pointer (+ optional shared_ptr owner) + shape[] + strides[] (bytes).
// Copies of an array_t share the buffer (like copying a Python reference).
// Arrays are either
//   * owned   : allocated with malloc() (16-byte aligned on glibc x86-64, the
//               same guarantee NumPy's default allocator gives), NOT zeroed
//               (like np.empty), freed when the last copy dies;
//   * borrowed: array_t::borrow(ptr, shape) wraps caller memory WITHOUT copy,
//               so the kernel sees exactly the caller's address/alignment.
//
// Deviations from the real thing (all irrelevant for similarity.cpp):
//   * no dtype conversion (forcecast) and no non-contiguous inputs: conversion
//     between array_t types is only possible for the same element type (any
//     flags) and shares the buffer -- this is what real pybind11 does when the
//     input already has the right dtype and layout;
//   * no Python object model, no GIL, no base handles.
#pragma once

#include "pybind11.h"

namespace pybind11 {

struct buffer_info {
    void* ptr = nullptr;
    ssize_t itemsize = 0;
    ssize_t size = 0;
    std::string format;
    ssize_t ndim = 0;
    std::vector<ssize_t> shape;
    std::vector<ssize_t> strides;
    bool readonly = false;
};

namespace detail {

// pybind11::detail::any_container<ssize_t> look-alike: accepts {a, b},
// std::vector, std::array ...
template <typename T>
class any_container {
    std::vector<T> v_;

public:
    any_container() = default;
    template <typename It,
              typename = std::enable_if_t<!std::is_integral_v<It>>>
    any_container(It first, It last) : v_(first, last) {}
    template <typename C,
              typename = std::enable_if_t<std::is_convertible_v<
                  decltype(*std::begin(std::declval<const C&>())), T>>>
    any_container(const C& c) : v_(std::begin(c), std::end(c)) {}
    template <typename TIn,
              typename = std::enable_if_t<std::is_convertible_v<TIn, T>>>
    any_container(const std::initializer_list<TIn>& c)
        : v_(c.begin(), c.end()) {}
    any_container(std::vector<T>&& v) : v_(std::move(v)) {}
    operator std::vector<T>&&() && { return std::move(v_); }
    std::vector<T>& operator*() { return v_; }
    const std::vector<T>& operator*() const { return v_; }
    std::vector<T>* operator->() { return &v_; }
    const std::vector<T>* operator->() const { return &v_; }
};

inline std::vector<ssize_t> c_strides(const std::vector<ssize_t>& shape,
                                      ssize_t itemsize) {
    auto ndim = shape.size();
    std::vector<ssize_t> strides(ndim, itemsize);
    if (ndim > 0) {
        for (size_t i = ndim - 1; i > 0; --i) {
            strides[i - 1] = strides[i] * shape[i];
        }
    }
    return strides;
}

// Accessors returned by array_t::unchecked<N>() / mutable_unchecked<N>()
template <typename T, ssize_t Dims>
class unchecked_reference {
protected:
    const unsigned char* data_;
    std::array<ssize_t, static_cast<size_t>(Dims)> shape_{}, strides_{};

    template <typename... Ix>
    ssize_t offset(Ix... index) const {
        static_assert(sizeof...(Ix) == Dims, "Invalid number of indices");
        const ssize_t idx[] = {static_cast<ssize_t>(index)...};
        ssize_t off = 0;
        for (ssize_t d = 0; d < Dims; ++d) off += idx[d] * strides_[d];
        return off;
    }

public:
    unchecked_reference(const void* data, const std::vector<ssize_t>& shape,
                        const std::vector<ssize_t>& strides)
        : data_(static_cast<const unsigned char*>(data)) {
        for (size_t d = 0; d < static_cast<size_t>(Dims); ++d) {
            shape_[d] = shape[d];
            strides_[d] = strides[d];
        }
    }
    template <typename... Ix>
    const T& operator()(Ix... index) const {
        return *reinterpret_cast<const T*>(data_ + offset(index...));
    }
    template <typename... Ix>
    const T* data(Ix... index) const {
        return &operator()(index...);
    }
    ssize_t shape(ssize_t dim) const { return shape_[static_cast<size_t>(dim)]; }
    static constexpr ssize_t itemsize() { return sizeof(T); }
    ssize_t ndim() const { return Dims; }
    ssize_t size() const {
        ssize_t s = 1;
        for (auto v : shape_) s *= v;
        return s;
    }
};

template <typename T, ssize_t Dims>
class unchecked_mutable_reference : public unchecked_reference<T, Dims> {
    using Base = unchecked_reference<T, Dims>;

public:
    using Base::Base;
    template <typename... Ix>
    T& operator()(Ix... index) {
        return const_cast<T&>(Base::operator()(index...));
    }
    template <typename... Ix>
    const T& operator()(Ix... index) const {
        return Base::operator()(index...);
    }
    template <typename... Ix>
    T* mutable_data(Ix... index) {
        return &operator()(index...);
    }
};

}  // namespace detail

// ---------------------------------------------------------------------------
// py::array: untyped base; carries the flag constants and the common queries
// ---------------------------------------------------------------------------
class array : public object {
public:
    enum {
        c_style = 0x0001,    // NPY_ARRAY_C_CONTIGUOUS
        f_style = 0x0002,    // NPY_ARRAY_F_CONTIGUOUS
        forcecast = 0x0010,  // NPY_ARRAY_FORCECAST
    };
    using ShapeContainer = detail::any_container<ssize_t>;
    using StridesContainer = detail::any_container<ssize_t>;

    array() = default;

    ssize_t ndim() const { return static_cast<ssize_t>(shape_.size()); }
    ssize_t itemsize() const { return itemsize_; }
    ssize_t size() const {
        ssize_t s = 1;
        for (auto v : shape_) s *= v;
        return s;
    }
    ssize_t nbytes() const { return size() * itemsize(); }
    const ssize_t* shape() const { return shape_.data(); }
    ssize_t shape(ssize_t dim) const {
        if (dim < 0 || dim >= ndim()) fail_dim_check(dim, "invalid axis");
        return shape_[static_cast<size_t>(dim)];
    }
    const ssize_t* strides() const { return strides_.data(); }
    ssize_t strides(ssize_t dim) const {
        if (dim < 0 || dim >= ndim()) fail_dim_check(dim, "invalid axis");
        return strides_[static_cast<size_t>(dim)];
    }
    bool owndata() const { return static_cast<bool>(owner_); }
    bool writeable() const { return writeable_; }

    buffer_info request(bool /*writable*/ = false) const {
        buffer_info b;
        b.ptr = ptr_;
        b.itemsize = itemsize_;
        b.size = size();
        b.format = format_;
        b.ndim = ndim();
        b.shape = shape_;
        b.strides = strides_;
        b.readonly = !writeable_;
        return b;
    }

protected:
    [[noreturn]] void fail_dim_check(ssize_t dim, const std::string& msg) const {
        throw index_error(msg + ": " + std::to_string(dim) +
                          " (ndim = " + std::to_string(ndim()) + ')');
    }

    void init_owned(std::vector<ssize_t> shape, ssize_t itemsize) {
        itemsize_ = itemsize;
        shape_ = std::move(shape);
        for (auto v : shape_) {
            if (v < 0) throw value_error("negative dimensions are not allowed");
        }
        strides_ = detail::c_strides(shape_, itemsize_);
        auto n = static_cast<size_t>(nbytes());
        void* p = std::malloc(n ? n : 1);
        if (!p) throw std::bad_alloc();
        owner_ = std::shared_ptr<void>(p, [](void* q) { std::free(q); });
        ptr_ = p;
        writeable_ = true;
    }
    void init_borrowed(void* ptr, std::vector<ssize_t> shape, ssize_t itemsize,
                       bool writeable) {
        itemsize_ = itemsize;
        shape_ = std::move(shape);
        strides_ = detail::c_strides(shape_, itemsize_);
        owner_.reset();
        ptr_ = ptr;
        writeable_ = writeable;
    }
    void share_from(const array& o) {
        owner_ = o.owner_;
        ptr_ = o.ptr_;
        itemsize_ = o.itemsize_;
        shape_ = o.shape_;
        strides_ = o.strides_;
        writeable_ = o.writeable_;
        format_ = o.format_;
    }

    std::shared_ptr<void> owner_;  // null for borrowed memory
    void* ptr_ = nullptr;
    ssize_t itemsize_ = 0;
    std::vector<ssize_t> shape_;
    std::vector<ssize_t> strides_;  // in bytes, always C-contiguous
    bool writeable_ = true;
    std::string format_;
};

// ---------------------------------------------------------------------------
// py::array_t<T, ExtraFlags>
// ---------------------------------------------------------------------------
template <typename T, int ExtraFlags = array::forcecast>
class array_t : public array {
public:
    using value_type = T;
    static constexpr int flags = ExtraFlags;

    // Empty 1-D array of length 0 (what the real default constructor gives)
    array_t() { init_owned({0}, sizeof(T)); }

    // array_t(count [, ptr]): new owned 1-D array; with ptr the data is COPIED
    // (real pybind11: ptr without a base handle -> copy)
    explicit array_t(ssize_t count, const T* ptr = nullptr, handle = handle())
        : array_t(ShapeContainer{count}, ptr) {}

    // array_t({d0, d1, ...} [, ptr])
    explicit array_t(ShapeContainer shape, const T* ptr = nullptr,
                     handle = handle()) {
        init_owned(*shape, sizeof(T));
        if (ptr) {
            std::memcpy(ptr_, ptr, static_cast<size_t>(nbytes()));
        }
    }

    // Same element type, other flags: share the buffer (the stand-in array is
    // always C-contiguous and of the right dtype, so real pybind11 would hand
    // back the same ndarray too).
    template <int OtherFlags,
              typename = std::enable_if_t<OtherFlags != ExtraFlags>>
    array_t(const array_t<T, OtherFlags>& o) {
        share_from(o);
    }

    // Wrap caller memory without copying.
    static array_t borrow(const T* ptr, std::vector<ssize_t> shape,
                          bool writeable = false) {
        array_t a{no_init{}};
        a.init_borrowed(const_cast<T*>(ptr), std::move(shape), sizeof(T),
                        writeable);
        return a;
    }

    static constexpr ssize_t itemsize() { return sizeof(T); }

    template <typename... Ix>
    const T* data(Ix... index) const {
        return static_cast<const T*>(ptr_) + elem_offset(index...);
    }
    template <typename... Ix>
    T* mutable_data(Ix... index) {
        if (!writeable_) throw std::domain_error("array is not writeable");
        return static_cast<T*>(ptr_) + elem_offset(index...);
    }
    template <typename... Ix>
    const T& at(Ix... index) const {
        check_rank(sizeof...(Ix));
        return *data(index...);
    }

    template <ssize_t Dims>
    detail::unchecked_reference<T, Dims> unchecked() const& {
        check_rank(Dims);
        return detail::unchecked_reference<T, Dims>(ptr_, shape_, strides_);
    }
    template <ssize_t Dims>
    detail::unchecked_mutable_reference<T, Dims> mutable_unchecked() & {
        check_rank(Dims);
        if (!writeable_) throw std::domain_error("array is not writeable");
        return detail::unchecked_mutable_reference<T, Dims>(ptr_, shape_,
                                                            strides_);
    }

private:
    struct no_init {};
    explicit array_t(no_init) {}

    void check_rank(size_t n) const {
        if (static_cast<ssize_t>(n) != ndim()) {
            throw std::domain_error(
                "array has incorrect number of dimensions: " +
                std::to_string(ndim()) + "; expected " + std::to_string(n));
        }
    }
    ssize_t elem_offset() const { return 0; }
    template <typename... Ix>
    ssize_t elem_offset(Ix... index) const {
        if (static_cast<ssize_t>(sizeof...(Ix)) > ndim()) {
            fail_dim_check(static_cast<ssize_t>(sizeof...(Ix)),
                           "too many indices for an array");
        }
        const ssize_t idx[] = {static_cast<ssize_t>(index)...};
        ssize_t off = 0;
        for (size_t d = 0; d < sizeof...(Ix); ++d) off += idx[d] * strides_[d];
        return off / static_cast<ssize_t>(sizeof(T));
    }
};

}  // namespace pybind11
