"""Entry point: run_check.py <Cxx> [--replay file]"""
import json
import sys

import pipeline
import props


def main():
    prop = sys.argv[1]
    if prop not in props.SPECS:
        print(f"unknown or unclaimed property {prop}")
        return 2
    spec = props.SPECS[prop]()
    if len(sys.argv) >= 4 and sys.argv[2] == "--replay":
        payload = json.load(open(sys.argv[3]))
        fn = spec.get("replay")
        if fn is None:
            print("no replay function for", prop)
            return 2
        ok = fn(payload)
        print("replay:", "property holds on this input" if ok else "property FAILS on this input")
        return 0 if ok else 1
    return pipeline.run_check(prop, spec)


if __name__ == "__main__":
    sys.exit(main())
