"""Shared machinery of the correspondence harness: Coq term emitters, the case-file
runner (vm_compute inside coqc), replay/evidence helpers.

Run with /venv/bin/python, PYTHONPATH=/repo (set by bin/check)."""
import hashlib
import json
import math
import os
import re
import subprocess
import sys
import time
from concurrent.futures import ThreadPoolExecutor
from pathlib import Path

VERIF = Path(__file__).resolve().parent.parent
COQ = VERIF / "coq"
BUILD = VERIF / "build"
REPLAYS = VERIF / "replays"
EVIDENCE = VERIF / "evidence"
REPO = Path(os.environ.get("BBLEAN_REPO", "/repo"))


# ---------------------------------------------------------------- Coq terms
def cz(z) -> str:
    z = int(z)
    return f"({z})" if z < 0 else str(z)


def cnat(n) -> str:
    return f"{int(n)}%nat"


def cbool(b) -> str:
    return "true" if b else "false"


def cfloat(x) -> str:
    x = float(x)
    if math.isnan(x):
        return "nan"
    if math.isinf(x):
        return "infinity" if x > 0 else "neg_infinity"
    if x == 0.0:
        return "(-0)%float" if math.copysign(1.0, x) < 0 else "0%float"
    h = x.hex()
    if h.startswith("-"):
        return f"(-{h[1:]})%float"
    return f"{h}%float"


def clist(items, f=str) -> str:
    return "[" + "; ".join(f(i) for i in items) + "]"


def czl(l) -> str:
    return clist(l, cz)


def cfpv(bits) -> str:
    return clist(bits, lambda b: "true" if int(b) else "false")


def copt(x, f=str) -> str:
    return "None" if x is None else f"(Some {f(x)})"


def cpair(a, b) -> str:
    return f"({a}, {b})"


# ---------------------------------------------------------------- running Coq
_RES = re.compile(r"^\s*=\s*(.*)$")


def _run_shard(path: Path, timeout: int):
    t0 = time.time()
    p = subprocess.run(
        ["timeout", str(timeout), "coqc", "-R", str(COQ), "BB", str(path)],
        capture_output=True,
        text=True,
        cwd=path.parent,
    )
    return p.returncode, p.stdout, p.stderr, time.time() - t0


class Neutral(str):
    """Stands for "the model agrees" where the model cannot be evaluated (it does not build, or a
    case file is rejected): with VERIF_TOLERATE_MODEL=1 [eval_cases] records the failure in
    MODEL_ERRORS — the pipeline reports it as a broken tie — and returns these, so that the direct
    oracles of a suite still run and their findings are not lost."""

    def strip(self, *a):
        return self

    def split(self, *a, **k):
        return [self]

    def __eq__(self, o):
        return True

    def __ne__(self, o):
        return False

    def __hash__(self):
        return 0

    def __contains__(self, x):
        return False

    def __int__(self):
        return -1


MODEL_ERRORS: list[str] = []


def eval_cases(name: str, preamble: str, cases: list[str], shard: int = 150,
               timeout: int = 900, jobs: int = 12) -> list[str]:
    """Evaluate each Gallina term of `cases` with vm_compute; returns one printed
    result (a single line with whitespace squeezed) per case.  Raises RuntimeError if
    coqc fails (the model does not build / a case is ill-typed)."""
    d = BUILD / "cases" / name
    d.mkdir(parents=True, exist_ok=True)
    for old in d.glob("*"):
        old.unlink()
    files = []
    for k in range(0, len(cases), shard):
        path = d / f"c{k // shard:04d}.v"
        with open(path, "w") as f:
            f.write(preamble + "\n")
            for j, c in enumerate(cases[k:k + shard]):
                f.write(f"Definition case_{j} := {c}.\n")
                f.write(f"Eval vm_compute in case_{j}.\n")
        files.append(path)
    out: list[str] = []
    with ThreadPoolExecutor(max_workers=jobs) as ex:
        results = list(ex.map(lambda p: _run_shard(p, timeout), files))
    for path, (rc, so, se, _dt) in zip(files, results):
        if rc != 0:
            if os.environ.get("VERIF_TOLERATE_MODEL"):
                MODEL_ERRORS.append(f"{name}: coqc failed on {path.name} (rc={rc}): {se[-1200:]}")
                return [Neutral("true") for _ in cases]
            raise RuntimeError(f"coqc failed on {path} (rc={rc}):\n{se[-3000:]}")
        # split the output into one chunk per "Eval": chunks start with "     = "
        chunks: list[str] = []
        cur = None
        for line in so.splitlines():
            if line.startswith("     = "):
                if cur is not None:
                    chunks.append(cur)
                cur = line[7:]
            elif cur is not None:
                cur += " " + line.strip()
        if cur is not None:
            chunks.append(cur)
        cleaned = []
        for ch in chunks:
            ch = re.sub(r"\s+", " ", ch).strip()
            # drop the trailing ": type"
            i = ch.rfind(" : ")
            cleaned.append(ch[:i] if i >= 0 else ch)
        out.extend(cleaned)
    if len(out) != len(cases):
        if os.environ.get("VERIF_TOLERATE_MODEL"):
            MODEL_ERRORS.append(f"{name}: expected {len(cases)} results, got {len(out)}")
            return [Neutral("true") for _ in cases]
        raise RuntimeError(f"{name}: expected {len(cases)} results, got {len(out)}")
    return out


# ---------------------------------------------------------------- replay / evidence
def write_replay(prop: str, payload: dict) -> Path:
    REPLAYS.mkdir(exist_ok=True)
    blob = json.dumps(payload, sort_keys=True, default=str)
    h = hashlib.sha1(blob.encode()).hexdigest()[:12]
    path = REPLAYS / f"{prop}-{h}.json"
    with open(path, "w") as f:
        json.dump(payload, f, indent=1, sort_keys=True, default=str)
    return path


def seed_from_env(default: int = 20260930) -> int:
    try:
        return int(os.environ.get("VERIF_SEED", default))
    except ValueError:
        return default


def tier_from_env() -> str:
    t = os.environ.get("VERIF_TIER", "quick")
    return t if t in ("quick", "thorough") else "quick"
