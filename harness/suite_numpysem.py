"""Suite `numpy-sem`: every definition of coq/Gen/NumpySem.v (the meaning the translator gives to
NumPy / Python operations) against the real NumPy / Python on random and boundary arguments."""
import fnmatch
import math
import random
import warnings

import numpy as np

from common import cz, cfloat, clist, czl, cbool, eval_cases
from pipeline import Result

warnings.filterwarnings("ignore")
PRE = ("From BB Require Import Model.ObsBits Gen.NumpySem.\nFrom Coq Require Import String.\n"
       "Open Scope Z_scope.\n"
       "Definition bl_eqb := list_eqb Bool.eqb.\n")
W = {8: "W8", 16: "W16", 32: "W32", 64: "W64"}
DT = {8: np.uint8, 16: np.uint16, 32: np.uint32, 64: np.uint64}


def cstr(s):
    return '"' + s.replace('"', '""') + '"%string'


def suite_numpysem(seed, tier):
    rng = random.Random(seed + 21)
    r = Result("numpy-sem")
    n = 25 if tier == "quick" else 400
    terms, meta = [], []

    def add(kind, term, info):
        terms.append(term)
        meta.append((kind, info))
    edge = [0, 1, 2, 127, 128, 255, 256, 65535, 65536, 2 ** 31, 2 ** 32 - 1, 2 ** 32, 2 ** 53, 2 ** 53 + 1,
            2 ** 63 - 1, 2 ** 63, 2 ** 64 - 1]
    for _ in range(n):
        # astype / wrap
        w = rng.choice([8, 16, 32, 64])
        xs = [rng.choice(edge + [rng.randrange(2 ** 64)]) for _ in range(rng.randint(0, 6))]
        exp = [int(v) for v in np.array(xs, dtype=np.uint64).astype(DT[w])]
        add("astype", f"zl_eqb (np_astype {W[w]} {czl(xs)}) {czl(exp)}", {"w": w, "x": xs})
        # sum / dot in uint64 (wrap-around)
        a = np.array(xs, dtype=np.uint64)
        add("sum_u64", f"(np_sum_u64 {czl(xs)} =? {cz(int(np.sum(a, dtype=np.uint64)))})", {"x": xs})
        ys = [rng.choice(edge + [rng.randrange(2 ** 64)]) for _ in xs]
        b = np.array(ys, dtype=np.uint64)
        add("dot_u64", f"(np_dot_u64 {czl(xs)} {czl(ys)} =? {cz(int(np.dot(a, b)) if len(xs) else 0)})",
            {"x": xs, "y": ys})
        # array >= float
        f = rng.choice([0.5, 1.0, 127.5, 2.0 ** 53, 2.0 ** 53 + 2, 0.0, 1e19, rng.random() * 1000])
        add("ge_arr_f", f"bl_eqb (np_ge_arr_f {czl(xs)} {cfloat(f)}) {clist([bool(v) for v in (a >= f)], cbool)}",
            {"x": xs, "f": f})
        # add with dtype
        w2 = rng.choice([8, 16, 32, 64])
        small = [v % (2 ** w2) for v in xs]
        small2 = [v % (2 ** w2) for v in ys]
        exp = [int(v) for v in np.add(np.array(small, dtype=DT[w2]), np.array(small2, dtype=DT[w2]), dtype=DT[w2])]
        add("add_dtype", f"zl_eqb (np_add_dtype {W[w2]} {czl(small)} {czl(small2)}) {czl(exp)}",
            {"w": w2, "a": small, "b": small2})
        # packbits of a uint8 array (non-zero = set)
        v8 = [rng.choice([0, 0, 1, 1, 2, 255]) for _ in range(rng.randint(0, 20))]
        exp = [int(v) for v in np.packbits(np.array(v8, dtype=np.uint8))]
        add("packbits", f"zl_eqb (np_packbits {czl(v8)}) {czl(exp)}", {"v": v8})
        # ceil division, float truncation
        p, q = rng.randrange(-50, 10 ** 6), rng.randrange(1, 1000)
        add("ceil_div", f"(ceil_div {cz(p)} {cz(q)} =? {cz(math.ceil(p / q) if abs(p) < 2 ** 40 else -((-p) // q))})",
            {"a": p, "b": q})
        x = rng.choice([0.0, 0.99, 1.0, 2.5, 1e6 + 0.75, 123456.999, float(rng.randrange(10 ** 9)) / 7])
        add("f2Z_trunc", f"(f2Z_trunc {cfloat(x)} =? {cz(int(x))})", {"x": x})
        # strings: str(int), zfill, replace
        z = rng.choice([0, 7, 9, 10, 99, 100, 12345, 10 ** 18, -1, -10, -907] + [rng.randrange(10 ** 9)])
        add("str_of_Z", f"String.eqb (str_of_Z {cz(z)}) {cstr(str(z))}", {"z": z})
        s = str(rng.randrange(10 ** rng.randint(0, 6)))
        wd = rng.randint(0, 8)
        add("zfill", f"String.eqb (zfill {cstr(s)} {cz(wd)}) {cstr(s.zfill(wd))}", {"s": s, "w": wd})
        s = "".join(rng.choice("u8int016") for _ in range(rng.randint(0, 8)))
        old, new = rng.choice([("8", "08"), ("1", ""), ("in", "x"), ("88", "8"), ("", "z")]), None
        add("str_replace", f"String.eqb (str_replace {cstr(s)} {cstr(old[0])} {cstr(old[1])}) "
            f"{cstr(s.replace(old[0], old[1]) if old[0] else s)}", {"s": s, "old": old[0], "new": old[1]})
        # np.min_scalar_type / min_safe_uint (Model/Base.np_min_scalar_type)
        from bblean.utils import min_safe_uint
        m = rng.choice(edge + [2 ** 64, 2 ** 70, rng.randrange(2 ** 66)])
        try:
            wbits = np.dtype(min_safe_uint(m)).itemsize * 8
            expw = f"(Some {W[wbits]})"
        except ValueError:
            expw = "None"
        add("min_scalar_type", f"(match np_min_scalar_type {cz(m)}, {expw} with Some a, Some b => "
            f"wbits a =? wbits b | None, None => true | _, _ => false end)", {"n": m})
        # uint64 -> float64 (Model/Base.Z2f, round to nearest even incl. values above 2^63)
        zz = rng.choice(edge + [2 ** 53 + 3, 2 ** 54 + 2, 2 ** 63 + 1025, 2 ** 64 - 1025, rng.randrange(2 ** 64),
                                (rng.randrange(2 ** 11) << 53) | rng.choice([0, 1, 2 ** 10, 2 ** 10 + 1, 2 ** 11 - 1])])
        zz %= 2 ** 64
        add("Z2f", f"feq_bits (Z2f {cz(zz)}) {cfloat(float(np.uint64(zz)))}", {"z": zz})
        sz = rng.choice([-1, -2 ** 31, -(2 ** 53) - 1, 5, -rng.randrange(2 ** 62)])
        add("Zs2f", f"feq_bits (Zs2f {cz(sz)}) {cfloat(float(np.int64(sz)))}", {"z": sz})
        # glob with at most one star
        pat = rng.choice(["round-*.npy", "round-*.pkl", "*.pkl.tmp", "round-1-bufs*.npy", "round-12-idxs*.pkl",
                          "clusters.pkl", "ab*ba", "*", "a*"])
        name = rng.choice(["round-1-bufs.label-0-uint08.npy", "round-.npy", "round.npy", "round-12-idxs.pkl",
                           "round-1-bufs.npy", "clusters.pkl", "clusters.pkl.tmp", "x.pkl.tmp", ".pkl.tmp",
                           "aba", "abba", "ab", "a", "", "round-1-idxs.label-3-uint16.pkl", "round-10-bufs-x.npy"])
        add("glob", f"Bool.eqb (glob_match {cstr(pat)} {cstr(name)}) {cbool(fnmatch.fnmatchcase(name, pat))}",
            {"pattern": pat, "name": name})
    out = eval_cases("numpysem", PRE, terms, shard=300)
    kinds = {}
    for (k, info), o in zip(meta, out):
        kinds[k] = kinds.get(k, 0) + 1
        if o.strip() != "true":
            r.bad.append({"suite": "numpy-sem", "what": f"NumpySem.{k} differs from NumPy/Python (model semantics)",
                          "input": info})
    r.cases = len(terms)
    r.nontrivial = len({str(m) for m in meta})
    r.stats = {"per_definition": kinds}
    r.samples = [{"definition": meta[0][0], "input": meta[0][1]}]
    return r


if __name__ == "__main__":
    import sys
    rr = suite_numpysem(int(sys.argv[1]) if len(sys.argv) > 1 else 1, sys.argv[2] if len(sys.argv) > 2 else "quick")
    print(rr.name, rr.cases, rr.nontrivial, len(rr.bad), rr.stats)
    for b in rr.bad[:8]:
        print(b)
