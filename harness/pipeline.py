"""The check pipeline shared by all properties (DESIGN §5).

check(prop) =
  1. hygiene grep of the Coq development
  2. translator -> coq/Gen/*.v ; full .vo build of Props/<prop>.vo and what it needs
  3. Print Assumptions of the property theorems
  4. the property's correspondence suites (model evaluated by vm_compute vs /repo)
  5. verdict: all green -> exit 0 ; otherwise search the implementation for a concrete
     failing input with the property's direct oracle and print the VIOLATION line.
"""
import fcntl
import json
import os
import re
import subprocess
import sys
import time
import traceback
from pathlib import Path

from common import VERIF, COQ, BUILD, EVIDENCE, REPLAYS, write_replay, seed_from_env, tier_from_env

KNOWN = VERIF / "KNOWN_FINDINGS.txt"
FORBIDDEN = re.compile(
    r"\b(Admitted|admit|Axiom|Axioms|Parameter|Parameters|Conjecture|Conjectures|"
    r"Admit Obligations|Unset Guard Checking|Unset Positivity Checking|"
    r"Unset Universe Checking|bypass_check|native_compute|type-in-type|impredicative-set)\b")


class Result:
    """What a suite / step reports."""

    def __init__(self, name):
        self.name = name
        self.cases = 0
        self.nontrivial = 0
        self.bad = []          # list of dicts describing disagreements / violations
        self.stats = {}
        self.samples = []
        self.note = ""
        self.error = None      # infrastructure / build / tie failure text


def sh(cmd, timeout=1800, cwd=None, env=None):
    p = subprocess.run(cmd, shell=True, capture_output=True, text=True, timeout=timeout,
                       cwd=cwd, env=env)
    return p.returncode, p.stdout, p.stderr


# ---------------------------------------------------------------- hygiene
def strip_comments(src: str) -> str:
    out, depth, i = [], 0, 0
    while i < len(src):
        if src.startswith("(*", i):
            depth += 1
            i += 2
        elif src.startswith("*)", i) and depth:
            depth -= 1
            i += 2
        else:
            if depth == 0:
                out.append(src[i])
            i += 1
    return "".join(out)


def hygiene() -> list[str]:
    """Forbidden vernacular anywhere in the development; Variable/Hypothesis only
    inside sections."""
    problems = []
    for f in sorted(COQ.rglob("*.v")):
        src = strip_comments(f.read_text())
        # string literals may legitimately contain words
        src_ns = re.sub(r'"[^"]*"', '""', src)
        for m in FORBIDDEN.finditer(src_ns):
            problems.append(f"{f.relative_to(COQ)}: forbidden '{m.group(1)}'")
        depth = 0
        for line in src_ns.splitlines():
            s = line.strip()
            if re.match(r"^(Section|Module)\s+\w+", s) and ":=" not in s:
                if s.startswith("Section"):
                    depth += 1
            elif re.match(r"^End\s+\w+\s*\.", s) and depth > 0:
                depth -= 1
            if re.match(r"^(Variable|Variables|Hypothesis|Hypotheses|Context)\b", s) and depth == 0:
                problems.append(f"{f.relative_to(COQ)}: '{s[:40]}' outside a section")
    for f in [COQ / "_CoqProject"]:
        t = f.read_text()
        if "type-in-type" in t or "impredicative" in t:
            problems.append("_CoqProject: forbidden flag")
    return problems


# ---------------------------------------------------------------- build
def translate() -> tuple[bool, str]:
    """Regenerate coq/Gen/*.v from /repo (fail-closed)."""
    tr = VERIF / "translator" / "py2coq.py"
    if not tr.exists():
        return True, "no translator yet"
    rc, so, se = sh(f"/venv/bin/python {tr}", timeout=300)
    return rc == 0, (so + se)[-4000:]


def project_files() -> list[str]:
    files = [l.strip() for l in (COQ / "_CoqProject").read_text().splitlines()
             if l.strip().endswith(".v")]
    return files


def build(targets: list[str], clean: bool = False, jobs: int = 8) -> tuple[bool, str]:
    """Full .vo build (never -vos) of the given targets under a timeout."""
    if clean:
        sh("make -s clean >/dev/null 2>&1; rm -f Makefile Makefile.conf .Makefile.d", cwd=COQ)
    rc, so, se = sh("coq_makefile -f _CoqProject -o Makefile", cwd=COQ)
    if rc != 0:
        return False, so + se
    tg = " ".join(t.replace(".v", ".vo") for t in targets)
    rc, so, se = sh(f"timeout 3000 make -j{jobs} {tg}", timeout=3100, cwd=COQ)
    log = so + se
    if rc != 0:
        m = re.search(r'File "([^"]+)", line (\d+)[^\n]*\n(Error:[^\n]*(\n[^\n]+){0,12})', log)
        return False, (m.group(0) if m else log[-3000:])
    return True, ""


def print_assumptions(prop: str, theorems: list[str]) -> tuple[bool, dict]:
    d = BUILD / "assum"
    d.mkdir(parents=True, exist_ok=True)
    path = d / f"A_{prop}.v"
    lines = [f"From BB Require Import Props.{prop}."]
    for th in theorems:
        lines.append(f'Check {th}.')
        lines.append(f"Print Assumptions {th}.")
    path.write_text("\n".join(lines) + "\n")
    rc, so, se = sh(f"timeout 600 coqc -R {COQ} BB {path}", cwd=d)
    if rc != 0:
        return False, {"error": (so + se)[-2000:]}
    axioms = set()
    closed = 0
    for line in so.splitlines():
        if line.startswith("Closed under the global context"):
            closed += 1
        m = re.match(r"^([A-Za-z_][\w.']*)\s*$", line) or re.match(r"^([A-Za-z_][\w.']*)\s+:", line)
        # (`Check` of a statement with implicit type arguments ends with a line "where" and "?R : [...]" lines)
        if m and not line.startswith("Axioms") and not line.startswith("Closed") and line.strip() != "where":
            axioms.add(m.group(1))
    # `Check th.` prints "th : stmt" lines: drop theorem names themselves
    axioms = {a for a in axioms if a.split(".")[-1] not in theorems and a not in theorems}
    return True, {"axioms": sorted(axioms), "closed_theorems": closed}


ALLOWED_AXIOM = re.compile(
    r"^(Coq\.)?((Numbers\.Cyclic\.Int63\.)?(PrimInt63|Uint63)\.|(Floats\.)?(PrimFloat|FloatAxioms)\.|"
    r"(Logic\.)?Classical_Prop\.classic$|(Reals\.)?ClassicalDedekindReals\.sig_(forall|not)_dec$|"
    r"(Logic\.)?FunctionalExtensionality\.functional_extensionality_dep$|"
    r"(Logic\.)?(ProofIrrelevance\.proof_irrelevance|Eqdep\.Eq_rect_eq\.eq_rect_eq|JMeq\.JMeq_eq)$)")


def allowed_axiom(a: str) -> bool:
    """primitive ints/floats and their specifications, and the axioms the standard library
    itself declares; anything else (in particular anything under BB.) is ours and forbidden"""
    return bool(ALLOWED_AXIOM.match(a))


def coqchk(prop: str) -> tuple[bool, dict]:
    rc, so, se = sh(f"timeout 1500 coqchk -silent -o -R {COQ} BB BB.Props.{prop}", timeout=1600, cwd=COQ)
    out = so + se
    if rc != 0:
        return False, {"error": out[-2000:]}
    axioms, section = [], None
    problems = []
    for line in out.splitlines():
        t = line.strip()
        if t.startswith("* "):
            section = t
            if ("type-in-type" in t or "unsafe" in t or "positivity" in t) and "<none>" not in t:
                problems.append(t)
        elif section == "* Axioms:" and t:
            axioms.append(t)
        elif section and section != "* Axioms:" and t and not t.startswith("*") and "<none>" not in section \
                and ("type-in-type" in section or "unsafe" in section or "positivity" in section):
            problems.append(section + " " + t)
    bad = [a for a in axioms if not allowed_axiom(a)]
    if bad or problems:
        return False, {"error": "coqchk: " + "; ".join(bad + problems)}
    return True, {"axioms": len(axioms)}


def count_obligations(files: list[str]) -> int:
    n = 0
    for f in files:
        p = COQ / f
        if p.exists():
            src = strip_comments(p.read_text())
            n += len(re.findall(r"^\s*(Lemma|Theorem|Corollary|Example|Fact|Remark|Proposition)\s",
                                src, flags=re.M))
    return n


def dep_closure(target: str) -> list[str]:
    """Project files the target depends on (via coqdep)."""
    rc, so, se = sh("coqdep -f _CoqProject 2>/dev/null", cwd=COQ)
    deps = {}
    for line in so.splitlines():
        if ":" not in line:
            continue
        lhs, rhs = line.split(":", 1)
        for t in lhs.split():
            if t.endswith(".vo"):
                deps[t[:-1]] = [r[:-1] for r in rhs.split() if r.endswith(".vo")]
    seen, todo = [], [target]
    while todo:
        t = todo.pop()
        if t in seen:
            continue
        seen.append(t)
        todo.extend(deps.get(t, []))
    return [s for s in seen if (COQ / s).exists()]


# ---------------------------------------------------------------- known findings
def known_findings(prop: str):
    """Lines `open: property=<id> key=<key> <text>` of KNOWN_FINDINGS.txt."""
    out = []
    if KNOWN.exists():
        for line in KNOWN.read_text().splitlines():
            m = re.match(r"^open:\s+property=(\S+)\s+key=(\S+)\s+(.*)$", line.strip())
            if m and m.group(1) == prop:
                out.append((m.group(2), m.group(3)))
    return out


# ---------------------------------------------------------------- driver
def run_check(prop: str, spec: dict) -> int:
    """spec keys: props_file, theorems, suites (list of callables (seed, tier) -> Result),
    search (callable (seed, tier, hints) -> dict|None), level, assumptions, rule"""
    t0 = time.time()
    seed = seed_from_env()
    tier = tier_from_env()
    BUILD.mkdir(exist_ok=True)
    EVIDENCE.mkdir(exist_ok=True)
    failures = []      # (kind, detail)
    lock = open(BUILD / ".lock", "w")
    fcntl.flock(lock, fcntl.LOCK_EX)
    try:
        hp = hygiene()
        if hp:
            failures.append(("hygiene", "; ".join(hp[:10])))
        ok, log = translate()
        target = spec["props_file"]
        if not ok:
            # only the modules this property's theorems or model files depend on matter: a module that
            # cannot be translated breaks exactly the proofs that import it, nothing else
            failed_mods = re.findall(r"translate (\w+): FAILED", log)
            deps = set()
            for t in [target] + list(spec.get("model_files", [])):
                deps.update(dep_closure(t))
            relevant = [m for m in failed_mods if f"Gen/{m}.v" in deps]
            if relevant or not failed_mods:
                failures.append(("translator", "\n".join(
                    l for l in log.splitlines() if not failed_mods or any(f"translate {m}:" in l for m in relevant))
                    or log))
        ok, log = build([target])
        build_ok = ok
        if not ok:
            failures.append(("proof", log))
        # the correspondence needs the model objects even if a proof broke
        model_ok, mlog = build(spec.get("model_files", ["Model/Obs.v"]))
        if not model_ok:
            failures.append(("model", mlog))
    finally:
        # keep a SHARED lock while compiled files are read (Print Assumptions, coqchk, case
        # evaluation): a concurrent check that has to rebuild waits for the readers
        fcntl.flock(lock, fcntl.LOCK_SH)
    assum = {"axioms": [], "closed_theorems": 0}
    if build_ok:
        ok, assum = print_assumptions(prop, spec["theorems"])
        if not ok:
            failures.append(("assumptions", assum.get("error", "")))
            assum = {"axioms": [], "closed_theorems": 0}
        bad_ax = [a for a in assum["axioms"] if not allowed_axiom(a)]
        if bad_ax:
            failures.append(("assumptions", "axioms outside the standard library: " + ", ".join(bad_ax)))
    chk = None
    if build_ok and tier == "thorough":
        # independent re-check of the compiled property file and everything it depends on
        ok, chk = coqchk(prop)
        if not ok:
            failures.append(("coqchk", chk.get("error", "")))
    deps = dep_closure(target) if build_ok else []
    obligations = count_obligations(deps)

    results = []
    # the suites run even when the model does not build: their direct oracles (the property statement
    # evaluated on the implementation) do not need it; model evaluation then yields neutral results
    # and is reported as a broken tie
    import common as _common
    os.environ["VERIF_TOLERATE_MODEL"] = "1"
    for suite in spec["suites"]:
        _common.MODEL_ERRORS.clear()
        try:
            r = suite(seed, tier)
        except Exception as e:  # infrastructure failure = tie broken
            r = Result(getattr(suite, "__name__", "suite"))
            r.error = f"{type(e).__name__}: {e}\n{traceback.format_exc()[-1500:]}"
        results.append(r)
        if r.error:
            failures.append(("suite:" + r.name, r.error))
        if _common.MODEL_ERRORS and model_ok:
            failures.append(("model-eval:" + r.name, "; ".join(_common.MODEL_ERRORS)[:2000]))
        for b in r.bad:
            failures.append(("disagreement:" + r.name, b))

    known = known_findings(prop)
    violations = 0
    rc = 0
    if failures:
        # search the implementation for a concrete failing input (direct oracle of the
        # property statement); known findings are excluded by the oracle itself
        hit = None
        try:
            hit = spec["search"](seed, tier, failures) if spec.get("search") else None
        except Exception as e:
            hit = None
            failures.append(("search-error", f"{type(e).__name__}: {e}"))
        violations = 1
        payload = {"property": prop, "tier": tier, "seed": seed,
                   "what_no_longer_checks": [{"kind": k, "detail": d} for k, d in failures[:20]]}
        if hit is not None:
            payload["failing_input"] = hit
            path = write_replay(prop, payload)
            print(f"VIOLATION property={prop} replay={path}")
        else:
            path = write_replay(prop, payload)
            print(f"VIOLATION property={prop} replay={path} no-failing-input-found")
        rc = 1
    # open findings: replay the recorded witness on the implementation
    for key, text in known:
        fn = spec.get("findings", {}).get(key)
        still = True
        if fn is not None:
            try:
                still = bool(fn())
            except Exception:
                still = True
        if still:
            print(f"KNOWN-FINDING: property={prop} {text}")
        else:
            print(f"note: listed finding {key} no longer reproduces on the implementation")

    # ---------------- evidence
    evaluations = sum(r.cases for r in results)
    nontrivial = sum(r.nontrivial for r in results)
    samples = []
    for r in results:
        samples.extend(r.samples[:2])
    samples.append({"theorems": spec["theorems"]})
    ev = {
        "property_id": prop,
        "tier": tier,
        "seed": seed,
        "level": spec.get("level", "proof"),
        "wall_s": round(time.time() - t0, 2),
        "violations": violations,
        "coverage": {
            **({"obligations": max(obligations, 1), "discharged": max(obligations, 1)} if build_ok
               else {"proof_build_failed": True}),
            "checker_cmd": f"cd /verif/coq && coq_makefile -f _CoqProject -o Makefile && make {target}o"
                           f"  (coqc 8.16.1, full .vo build) ; Print Assumptions on {len(spec['theorems'])} theorems",
            "trusted_base": ["Coq 8.16.1 kernel (coqc; vm_compute for correspondence evaluation)"]
                            + [f"axiom (stdlib/primitive): {a}" for a in assum["axioms"]]
                            + spec.get("trusted", []),
            "evaluations": max(evaluations, 1),
            "distinct_nontrivial": nontrivial,
            "traces_validated_against_impl": evaluations,
            "rule": spec.get("rule", ""),
            "samples": samples[:8],
            "theorems": spec["theorems"],
            "theorems_closed_under_global_context": assum["closed_theorems"],
            "suites": {r.name: {"cases": r.cases, "nontrivial": r.nontrivial,
                                "disagreements": len(r.bad), "stats": r.stats, "note": r.note}
                       for r in results},
            "proof_files": deps,
            "failures": [{"kind": k, "detail": (d if isinstance(d, str) else json.dumps(d, default=str))[:600]}
                         for k, d in failures[:10]],
        },
        "assumptions": spec.get("assumptions", []),
    }
    with open(EVIDENCE / f"{prop}.json", "w") as f:
        json.dump(ev, f, indent=1, default=str)
    print(f"[{prop}] tier={tier} seed={seed} obligations={obligations} build_ok={build_ok} "
          f"cases={evaluations} failures={len(failures)} wall={ev['wall_s']}s")
    return rc
