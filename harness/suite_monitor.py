"""Suite `monitor` (C20): the peak-memory file protocol.  The real monitor_rss_process is
run in-process on a fake sample sequence with every file operation of bblean._memory
intercepted; after EVERY operation the real reader get_peak_memory_gib is called.  The
observed (operation, reader result) sequence is compared with Model/Monitor.v."""
import builtins
import os
import random
import tempfile
import warnings
from pathlib import Path

from common import cfloat, clist, eval_cases
from pipeline import Result

warnings.filterwarnings("ignore")


class _Stop(Exception):
    pass


def run_monitor(samples_bytes, out_dir: Path):
    """returns the list of (opname, path basename, reader outcome) and the published values"""
    import bblean._memory as mem
    events = []
    peak_name = "max-rss.txt"

    def reader():
        try:
            v = mem.get_peak_memory_gib(out_dir)
            return ("none",) if v is None else ("val", float(v))
        except Exception as e:
            return ("error", f"{type(e).__name__}: {e}"[:120])

    def note(op, path):
        name = Path(str(path)).name
        if "max-rss" in name:
            events.append((op, name, reader()))

    class FileProxy:
        def __init__(self, f, path):
            self._f, self._p = f, path

        def write(self, s):
            r = self._f.write(s)
            note("write", self._p)
            return r

        def flush(self):
            r = self._f.flush()
            note("flush", self._p)
            return r

        def truncate(self, *a):
            r = self._f.truncate(*a)
            note("truncate", self._p)
            return r

        def fileno(self):
            return self._f.fileno()

        def __enter__(self):
            return self

        def __exit__(self, *a):
            self._f.close()
            note("close", self._p)
            return False

        def __getattr__(self, k):
            return getattr(self._f, k)

    fd_paths = {}

    def open_spy(path, *a, **kw):
        mode = kw.get("mode", a[0] if a else "r")
        f = builtins.open(path, *a, **kw)
        real_path = fd_paths.get(path, path) if isinstance(path, int) else path
        if any(c in mode for c in "wa+x") and "max-rss" in Path(str(real_path)).name:
            note("open", real_path)
            return FileProxy(f, real_path)
        return f

    class OsProxy:
        def __getattr__(self, k):
            return getattr(os, k)

        def fsync(self, fd):
            r = os.fsync(fd)
            try:
                p = os.readlink(f"/proc/self/fd/{fd}")
            except OSError:
                p = ""
            note("fsync", p)
            return r

        def replace(self, a, b):
            r = os.replace(a, b)
            note("replace", b)
            return r

        def rename(self, a, b):
            r = os.rename(a, b)
            note("replace", b)
            return r

        def open(self, path, *a, **kw):
            fd = os.open(path, *a, **kw)
            fd_paths[fd] = path
            return fd

    class FakeMem:
        def __init__(self, rss):
            self.rss = rss

    it = iter(samples_bytes)

    class FakeProc:
        pid = -1

        def __init__(self, pid=None):
            pass

        def memory_info(self):
            try:
                return FakeMem(next(it))
            except StopIteration:
                raise _Stop()

        def children(self, recursive=False):
            return []

    class PsProxy:
        Process = FakeProc
        NoSuchProcess = Exception

    saved = (mem.__dict__.get("open"), mem.os, mem.psutil, mem.time)

    class TimeProxy:
        def sleep(self, s):
            return None

        def perf_counter(self):
            return 0.0

    mem.open = open_spy
    mem.os = OsProxy()
    mem.psutil = PsProxy()
    mem.time = TimeProxy()
    try:
        try:
            mem.monitor_rss_process(out_dir / "monitor-rss.csv", 0.0, 0.0, 1)
        except _Stop:
            pass
    finally:
        if saved[0] is None:
            del mem.open
        else:
            mem.open = saved[0]
        mem.os, mem.psutil, mem.time = saved[1], saved[2], saved[3]
    return events


OPMAP = {"open": "WOpen", "write": "WWrite", "flush": "WFlush", "fsync": "WFsync",
         "close": "WClose", "replace": "WReplace"}


def gen_samples(rng):
    n = rng.randint(1, 8)
    page = 4096
    vals = []
    for _ in range(n):
        r = rng.random()
        if r < 0.3 and vals:
            vals.append(rng.choice(vals))                      # repeated value
        elif r < 0.5:
            vals.append(rng.choice([2 ** 29, 3 * 2 ** 28, 2 ** 30, 2 ** 18 * page]))   # short reprs
        else:
            vals.append(rng.randint(1, 2 ** 22) * page)        # long reprs
    return vals


def suite_monitor(seed, tier):
    rng = random.Random(seed)
    r = Result("monitor")
    n_cases = 60 if tier == "quick" else 2000
    terms, meta = [], []
    for _ in range(n_cases):
        samples = gen_samples(rng)
        with tempfile.TemporaryDirectory(prefix="verif_mon_") as tmp:
            ev = run_monitor(samples, Path(tmp))
        gib = [s * (1 / 1024 ** 3) for s in samples]
        # direct statement of C20 on the observation: never an error; values are published
        # maxima; non-decreasing
        seen = []
        mx = 0.0
        maxima = []
        for g in gib:
            if g > mx:
                mx = g
                maxima.append(g)
        last = None
        for op, name, res in ev:
            if res[0] == "error":
                r.bad.append({"suite": "monitor", "what": f"reader raised after '{op}' on {name}: {res[1]}",
                              "samples_bytes": samples})
                break
            if res[0] == "val":
                if res[1] not in maxima:
                    r.bad.append({"suite": "monitor", "what": f"reader obtained {res[1]!r}, never a recorded peak",
                                  "samples_bytes": samples})
                    break
                if last is not None and res[1] < last:
                    r.bad.append({"suite": "monitor", "what": "recorded peak decreased",
                                  "samples_bytes": samples})
                    break
                last = res[1]
        # model: same operation sequence and same reader results after each operation
        ops = [OPMAP.get(op, "WOTHER_" + op) for op, _, _ in ev]
        results = []
        for _, _, res in ev:
            results.append("RNone" if res[0] == "none" else f"(RSome {cfloat(res[1])})" if res[0] == "val" else "RError")
        term = (f"(list_eqb wop_eqb (writer {clist(gib, cfloat)} 0) {clist(ops_with_vals(ops, ev, gib))}) && "
                f"(list_eqb rres_eqb (after_each (writer {clist(gib, cfloat)} 0) fs0) {clist(results)})")
        terms.append(term)
        meta.append({"samples_bytes": samples, "events": [(o, n) for o, n, _ in ev][:12]})
    pre = ("From BB Require Import Model.Monitor.\nOpen Scope Z_scope.\n"
           "Definition wop_eqb (a b : wop) : bool := match a, b with WOpen, WOpen | WFlush, WFlush "
           "| WFsync, WFsync | WClose, WClose | WReplace, WReplace => true "
           "| WWrite x, WWrite y => feq_bits x y | _, _ => false end.\n"
           "Definition rres_eqb (a b : rres) : bool := match a, b with RNone, RNone | RError, RError => true "
           "| RSome x, RSome y => feq_bits x y | _, _ => false end.\n"
           "Definition WOTHER := WFsync.\n")
    try:
        out = eval_cases("monitor", pre, terms, shard=200)
    except RuntimeError as e:
        # an operation the model does not know (e.g. truncate): the protocol changed
        r.bad.append({"suite": "monitor", "what": "file-operation sequence is not the modelled protocol",
                      "detail": str(e)[-400:], "example": meta[0]})
        out = ["true"] * len(terms)
    r.cases = len(terms)
    r.nontrivial = len({str(m["samples_bytes"]) for m in meta if len(set(m["samples_bytes"])) > 1})
    for m, o in zip(meta, out):
        if o.strip() != "true":
            r.bad.append({"suite": "monitor", "what": "operation/reader sequence differs from Model/Monitor.v", **m})
    r.stats = {"sample_sequences": n_cases, "interleaving_points": sum(len(m["events"]) for m in meta)}
    r.samples = [meta[0]]
    return r


def ops_with_vals(ops, ev, gib):
    """attach to each WWrite the value parsed from what was written (the running max)"""
    out = []
    mx = 0.0
    maxima = []
    for g in gib:
        if g > mx:
            mx = g
            maxima.append(g)
    k = -1
    for o in ops:
        if o == "WOpen":
            k += 1
        if o == "WWrite":
            v = maxima[k] if 0 <= k < len(maxima) else 0.0
            out.append(f"(WWrite {cfloat(v)})")
        else:
            out.append(o)
    return out


def search_c20(seed, tier, failures):
    for kind, d in failures:
        if isinstance(d, dict) and d.get("suite") == "monitor" and "differs from Model" not in d.get("what", "") \
                and "not the modelled" not in d.get("what", ""):
            return {"violation": d["what"], "samples_bytes": d.get("samples_bytes")}
    rng = random.Random(seed + 1)
    for _ in range(400 if tier == "quick" else 5000):
        samples = gen_samples(rng)
        with tempfile.TemporaryDirectory(prefix="verif_mon_") as tmp:
            ev = run_monitor(samples, Path(tmp))
        last = None
        for op, name, res in ev:
            if res[0] == "error":
                return {"violation": f"reader raised after '{op}' on {name}: {res[1]}", "samples_bytes": samples}
            if res[0] == "val":
                if last is not None and res[1] < last:
                    return {"violation": "recorded peak decreased", "samples_bytes": samples}
                last = res[1]
    return None


def replay_c20(payload):
    fi = payload.get("failing_input")
    if not fi or not fi.get("samples_bytes"):
        return True
    with tempfile.TemporaryDirectory(prefix="verif_mon_") as tmp:
        ev = run_monitor(fi["samples_bytes"], Path(tmp))
    return not any(res[0] == "error" for _, _, res in ev)


if __name__ == "__main__":
    import sys
    rr = suite_monitor(int(sys.argv[1]) if len(sys.argv) > 1 else 1, sys.argv[2] if len(sys.argv) > 2 else "quick")
    print(rr.name, rr.cases, rr.nontrivial, len(rr.bad), rr.stats)
    for b in rr.bad[:3]:
        print(str(b)[:700])
