"""Suite `monitor` (C20): the peak-memory file protocol.  The real monitor_rss_process is
run in-process on a fake sample sequence with every file operation of bblean._memory
intercepted; after EVERY operation the real reader get_peak_memory_gib is called.  The
observed (operation, reader result) sequence is compared with Model/Monitor.v."""
import builtins
import os
import random
import shutil
import tempfile
import warnings
from pathlib import Path

from common import cfloat, clist, eval_cases
from pipeline import Result

warnings.filterwarnings("ignore")


class _Stop(Exception):
    pass


def run_monitor(samples_bytes, out_dir: Path):
    """returns the list of (opname, path basename, reader outcome) and the published values"""
    import bblean._memory as mem
    events = []
    peak_name = "max-rss.txt"

    def reader():
        try:
            v = mem.get_peak_memory_gib(out_dir)
            return ("none",) if v is None else ("val", float(v))
        except Exception as e:
            return ("error", f"{type(e).__name__}: {e}"[:120])

    def note(op, path):
        name = Path(str(path)).name
        if "max-rss" in name:
            events.append((op, name, reader()))

    class FileProxy:
        def __init__(self, f, path):
            self._f, self._p = f, path

        def write(self, s):
            r = self._f.write(s)
            note("write", self._p)
            return r

        def flush(self):
            r = self._f.flush()
            note("flush", self._p)
            return r

        def truncate(self, *a):
            r = self._f.truncate(*a)
            note("truncate", self._p)
            return r

        def fileno(self):
            return self._f.fileno()

        def __enter__(self):
            return self

        def __exit__(self, *a):
            self._f.close()
            note("close", self._p)
            return False

        def __getattr__(self, k):
            return getattr(self._f, k)

    fd_paths = {}

    def open_spy(path, *a, **kw):
        mode = kw.get("mode", a[0] if a else "r")
        f = builtins.open(path, *a, **kw)
        real_path = fd_paths.get(path, path) if isinstance(path, int) else path
        if any(c in mode for c in "wa+x") and "max-rss" in Path(str(real_path)).name:
            note("open", real_path)
            return FileProxy(f, real_path)
        return f

    class OsProxy:
        def __getattr__(self, k):
            return getattr(os, k)

        def fsync(self, fd):
            r = os.fsync(fd)
            try:
                p = os.readlink(f"/proc/self/fd/{fd}")
            except OSError:
                p = ""
            note("fsync", p)
            return r

        def replace(self, a, b):
            r = os.replace(a, b)
            note("replace", b)
            return r

        def rename(self, a, b):
            r = os.rename(a, b)
            note("replace", b)
            return r

        def open(self, path, *a, **kw):
            fd = os.open(path, *a, **kw)
            fd_paths[fd] = path
            return fd

    class FakeMem:
        def __init__(self, rss):
            self.rss = rss

    it = iter(samples_bytes)

    class FakeProc:
        pid = -1

        def __init__(self, pid=None):
            pass

        def memory_info(self):
            try:
                return FakeMem(next(it))
            except StopIteration:
                raise _Stop()

        def children(self, recursive=False):
            return []

    class PsProxy:
        Process = FakeProc
        NoSuchProcess = Exception

    saved = (mem.__dict__.get("open"), mem.os, mem.psutil, mem.time, mem.mp)

    class TimeProxy:
        def sleep(self, s):
            return None

        def perf_counter(self):
            return 0.0

    class SyncProcess:
        """mp.Process stand-in: start() runs the target in this process"""

        def __init__(self, target=None, args=(), kwargs=None, daemon=None, **kw):
            self._t, self._a, self._k = target, args, kwargs or {}

        def start(self):
            self._t(*self._a, **self._k)

    class MpProxy:
        Process = SyncProcess

        def __getattr__(self, k):
            import multiprocessing
            return getattr(multiprocessing, k)

    mem.open = open_spy
    mem.os = OsProxy()
    mem.psutil = PsProxy()
    mem.time = TimeProxy()
    mem.mp = MpProxy()
    try:
        try:
            # through the launcher the CLI uses: whatever it does to the peak file before the
            # daemon starts is part of the observed protocol
            mem.launch_monitor_rss_daemon(out_dir / "monitor-rss.csv", 0.0)
        except _Stop:
            pass
    finally:
        if saved[0] is None:
            del mem.open
        else:
            mem.open = saved[0]
        mem.os, mem.psutil, mem.time, mem.mp = saved[1], saved[2], saved[3], saved[4]
    return events


OPMAP = {"open": "WOpen", "write": "WWrite", "flush": "WFlush", "fsync": "WFsync",
         "close": "WClose", "replace": "WReplace"}


# ------------------------------------------------------------------ process-wide probe (direct oracle only)
def global_probe_violation(samples_bytes, out_dir: Path, emulate_exdev=False):
    """Runs the real monitor in-process on a scripted sample sequence with EVERY file-changing primitive of
    the interpreter interposed (builtins.open and the objects it returns, os.open / write / close / rename /
    replace / truncate / ftruncate / unlink / link, whichever module calls them: shutil, tempfile, pathlib ...)
    and calls the real reader before and after each of them.  Returns a description of the first violation of
    C20 (reader raises; a value that is not a sampled running maximum; the value decreases) or None.  Unlike
    run_monitor this does not depend on which API the monitor uses for its update, so it also sees updates
    that go through shutil or tempfile.  `emulate_exdev`: renames between different directories fail with
    EXDEV, as they do between file systems (used when no second file system is available)."""
    import errno
    import bblean._memory as mem
    gib = [s * (1 / 1024 ** 3) for s in samples_bytes]
    maxima, mx = [], 0.0
    for g in gib:
        if g > mx:
            mx = g
            maxima.append(g)
    state = {"in": False, "last": None, "bad": None}
    real_open = builtins.open
    real_os = {k: getattr(os, k) for k in ("open", "write", "close", "rename", "replace", "truncate",
                                           "ftruncate", "unlink", "remove", "link", "sendfile", "copy_file_range")
               if hasattr(os, k)}

    def probe(where):
        if state["in"] or state["bad"] is not None:
            return
        state["in"] = True
        try:
            try:
                v = mem.get_peak_memory_gib(out_dir)
            except Exception as e:
                state["bad"] = f"reader raised {type(e).__name__}: {str(e)[:80]} ({where})"
                return
            if v is None:
                if state["last"] is not None:
                    state["bad"] = f"a published value disappeared: the reader now obtains no value ({where})"
                return
            v = float(v)
            if v not in maxima:
                state["bad"] = f"reader obtained {v!r}, never a sampled running maximum ({where})"
            elif state["last"] is not None and v < state["last"]:
                state["bad"] = f"recorded peak decreased from {state['last']!r} to {v!r} ({where})"
            state["last"] = v
        finally:
            state["in"] = False

    class FP:
        def __init__(self, f, name):
            object.__setattr__(self, "_f", f)
            object.__setattr__(self, "_n", name)

        def _wrap(self, k, *a, **kw):
            probe(f"before {k} on {self._n}")
            r = getattr(self._f, k)(*a, **kw)
            probe(f"after {k} on {self._n}")
            return r

        def write(self, *a, **kw):
            return self._wrap("write", *a, **kw)

        def writelines(self, *a, **kw):
            return self._wrap("writelines", *a, **kw)

        def flush(self, *a, **kw):
            return self._wrap("flush", *a, **kw)

        def truncate(self, *a, **kw):
            return self._wrap("truncate", *a, **kw)

        def close(self, *a, **kw):
            return self._wrap("close", *a, **kw)

        def __enter__(self):
            self._f.__enter__()
            return self

        def __exit__(self, *a):
            probe(f"before close of {self._n}")
            r = self._f.__exit__(*a)
            probe(f"after close of {self._n}")
            return r

        def __iter__(self):
            return iter(self._f)

        def __getattr__(self, k):
            return getattr(self._f, k)

    def open_g(file, mode="r", *a, **kw):
        if state["in"]:
            return real_open(file, mode, *a, **kw)
        writing = any(c in mode for c in "wax+")
        if writing:
            probe(f"before open({Path(str(file)).name if not isinstance(file, int) else file!r}, {mode!r})")
        f = real_open(file, mode, *a, **kw)
        if writing:
            probe(f"after open({Path(str(file)).name if not isinstance(file, int) else file!r}, {mode!r})")
            return FP(f, str(file))
        return f

    def wrap_os(k):
        fn = real_os[k]

        def w(*a, **kw):
            if state["in"]:
                return fn(*a, **kw)
            if emulate_exdev and k in ("rename", "replace", "link") and len(a) >= 2:
                try:
                    if Path(os.fspath(a[0])).resolve().parent != Path(os.fspath(a[1])).resolve().parent:
                        raise OSError(errno.EXDEV, "Invalid cross-device link (emulated)")
                except TypeError:
                    pass
            if k == "open":
                flags = a[1] if len(a) > 1 else kw.get("flags", 0)
                if not flags & (os.O_WRONLY | os.O_RDWR | os.O_CREAT | os.O_TRUNC):
                    return fn(*a, **kw)
            probe(f"before os.{k}")
            r = fn(*a, **kw)
            probe(f"after os.{k}")
            return r
        return w

    it = iter(samples_bytes)

    class FakeMem:
        def __init__(self, rss):
            self.rss = rss

    class FakeProc:
        pid = -1

        def __init__(self, pid=None):
            pass

        def memory_info(self):
            try:
                return FakeMem(next(it))
            except StopIteration:
                raise _Stop()

        def children(self, recursive=False):
            return []

    class PsProxy:
        Process = FakeProc
        NoSuchProcess = Exception

    class TimeProxy:
        def sleep(self, s):
            return None

        def perf_counter(self):
            return 0.0

    class SyncProcess:
        def __init__(self, target=None, args=(), kwargs=None, daemon=None, **kw):
            self._t, self._a, self._k = target, args, kwargs or {}

        def start(self):
            self._t(*self._a, **self._k)

    class MpProxy:
        Process = SyncProcess

        def __getattr__(self, k):
            import multiprocessing
            return getattr(multiprocessing, k)

    saved = (mem.psutil, mem.time, mem.mp)
    mem.psutil, mem.time, mem.mp = PsProxy(), TimeProxy(), MpProxy()
    builtins.open = open_g
    import io
    real_io_open = io.open
    io.open = open_g
    for k in real_os:
        setattr(os, k, wrap_os(k))
    try:
        try:
            mem.launch_monitor_rss_daemon(out_dir / "monitor-rss.csv", 0.0)
        except _Stop:
            pass
        except Exception as e:
            if state["bad"] is None:
                state["bad"] = f"the monitor itself failed: {type(e).__name__}: {str(e)[:100]}"
    finally:
        builtins.open = real_open
        io.open = real_io_open
        for k, fn in real_os.items():
            setattr(os, k, fn)
        mem.psutil, mem.time, mem.mp = saved
    if state["bad"] is None:
        probe("after the last sample")
        if state["bad"] is None and maxima and state["last"] != maxima[-1]:
            state["bad"] = f"final value {state['last']!r} is not the peak {maxima[-1]!r}"
    return state["bad"]


def other_filesystem_dir():
    """a writable directory on another file system than the system temp dir, or None"""
    try:
        base = os.stat(tempfile.gettempdir()).st_dev
        for cand in ("/dev/shm", "/run/shm", str(Path.home()), "/var/tmp"):
            if os.path.isdir(cand) and os.access(cand, os.W_OK) and os.stat(cand).st_dev != base:
                return cand
    except OSError:
        pass
    return None


def global_placements():
    """(label, parent directory or None for the temp dir, emulate_exdev)"""
    other = other_filesystem_dir()
    return [("temp-dir", None, False),
            ("other-filesystem", other, False) if other else ("other-filesystem-emulated", None, True)]


def suite_monitor_global(seed, tier):
    """direct oracle only: the process-wide probe, output directory inside and outside the temp dir's file system"""
    rng = random.Random(seed + 11)
    r = Result("monitor-global")
    n = 12 if tier == "quick" else 300
    pts = 0
    for k in range(n):
        samples = gen_samples(rng)
        for label, parent, emu in global_placements():
            with tempfile.TemporaryDirectory(prefix="verif_mong_", dir=parent) as tmp:
                v = global_probe_violation(samples, Path(tmp), emulate_exdev=emu)
            pts += 1
            if v:
                r.bad.append({"suite": "monitor-global", "what": v, "samples_bytes": samples, "placement": label})
                break
    r.cases = pts
    r.nontrivial = pts
    r.stats = {"sample_sequences": n, "placements": [p[0] for p in global_placements()]}
    r.samples = [{"placements": [p[0] for p in global_placements()]}]
    return r


def gen_samples(rng):
    n = rng.randint(1, 8)
    page = 4096
    vals = []
    for _ in range(n):
        r = rng.random()
        if r < 0.2 and vals:
            # near ties: a few pages below (or above) an earlier sample — RSS jitter on a plateau;
            # both values share their first four decimals in GiB
            vals.append(max(page, rng.choice(vals) + rng.choice([-3, -2, -1, 1, 2]) * page))
        elif r < 0.27:
            # a plateau in the upper half of a 1e-4 GiB bucket, then slightly lower
            k = rng.randint(1, 20000)
            top = int((k + rng.uniform(0.55, 0.98)) * 1e-4 * 1024 ** 3) // page * page
            vals.extend([top, top - rng.randint(1, 4) * page])
        elif r < 0.35 and vals:
            vals.append(rng.choice(vals))                      # repeated value
        elif r < 0.5:
            vals.append(rng.choice([2 ** 29, 3 * 2 ** 28, 2 ** 30, 2 ** 18 * page]))   # short reprs
        else:
            vals.append(rng.randint(1, 2 ** 22) * page)        # long reprs
    return vals


def suite_monitor(seed, tier):
    rng = random.Random(seed)
    r = Result("monitor")
    n_cases = 60 if tier == "quick" else 2000
    terms, meta = [], []
    for _ in range(n_cases):
        samples = gen_samples(rng)
        with tempfile.TemporaryDirectory(prefix="verif_mon_") as tmp:
            ev = run_monitor(samples, Path(tmp))
        gib = [s * (1 / 1024 ** 3) for s in samples]
        # direct statement of C20 on the observation: never an error; values are published
        # maxima; non-decreasing
        seen = []
        mx = 0.0
        maxima = []
        for g in gib:
            if g > mx:
                mx = g
                maxima.append(g)
        last = None
        for op, name, res in ev:
            if res[0] == "error":
                r.bad.append({"suite": "monitor", "what": f"reader raised after '{op}' on {name}: {res[1]}",
                              "samples_bytes": samples})
                break
            if res[0] == "val":
                if res[1] not in maxima:
                    r.bad.append({"suite": "monitor", "what": f"reader obtained {res[1]!r}, never a recorded peak",
                                  "samples_bytes": samples})
                    break
                if last is not None and res[1] < last:
                    r.bad.append({"suite": "monitor", "what": "recorded peak decreased",
                                  "samples_bytes": samples})
                    break
                last = res[1]
        # model: same operation sequence and same reader results after each operation
        ops = [OPMAP.get(op, "WOTHER_" + op) for op, _, _ in ev]
        results = []
        for _, _, res in ev:
            results.append("RNone" if res[0] == "none" else f"(RSome {cfloat(res[1])})" if res[0] == "val" else "RError")
        term = (f"(list_eqb wop_eqb (writer {clist(gib, cfloat)} 0) {clist(ops_with_vals(ops, ev, gib))}) && "
                f"(list_eqb rres_eqb (after_each (writer {clist(gib, cfloat)} 0) fs0) {clist(results)})")
        terms.append(term)
        meta.append({"samples_bytes": samples, "events": [(o, n) for o, n, _ in ev][:12]})
    pre = ("From BB Require Import Model.Monitor.\nOpen Scope Z_scope.\n"
           "Definition wop_eqb (a b : wop) : bool := match a, b with WOpen, WOpen | WFlush, WFlush "
           "| WFsync, WFsync | WClose, WClose | WReplace, WReplace => true "
           "| WWrite x, WWrite y => feq_bits x y | _, _ => false end.\n"
           "Definition rres_eqb (a b : rres) : bool := match a, b with RNone, RNone | RError, RError => true "
           "| RSome x, RSome y => feq_bits x y | _, _ => false end.\n"
           "Definition WOTHER := WFsync.\n")
    try:
        out = eval_cases("monitor", pre, terms, shard=200)
    except RuntimeError as e:
        # an operation the model does not know (e.g. truncate): the protocol changed
        r.bad.append({"suite": "monitor", "what": "file-operation sequence is not the modelled protocol",
                      "detail": str(e)[-400:], "example": meta[0]})
        out = ["true"] * len(terms)
    r.cases = len(terms)
    r.nontrivial = len({str(m["samples_bytes"]) for m in meta if len(set(m["samples_bytes"])) > 1})
    for m, o in zip(meta, out):
        if o.strip() != "true":
            r.bad.append({"suite": "monitor", "what": "operation/reader sequence differs from Model/Monitor.v", **m})
    r.stats = {"sample_sequences": n_cases, "interleaving_points": sum(len(m["events"]) for m in meta)}
    r.samples = [meta[0]]
    return r


def ops_with_vals(ops, ev, gib):
    """attach to each WWrite the value parsed from what was written (the running max)"""
    out = []
    mx = 0.0
    maxima = []
    for g in gib:
        if g > mx:
            mx = g
            maxima.append(g)
    k = -1
    for o in ops:
        if o == "WOpen":
            k += 1
        if o == "WWrite":
            v = maxima[k] if 0 <= k < len(maxima) else 0.0
            out.append(f"(WWrite {cfloat(v)})")
        else:
            out.append(o)
    return out


# ------------------------------------------------------------------ sub-step interleavings
def run_interleaved(samples_bytes, out_dir: Path, a, b, c, d, between=None):
    """the real writer runs in a thread that stops BEFORE each of its file operations; the real
    reader runs in this thread and lets the writer perform `a` operations before it starts, `b`
    between its exists() test and its open(), `c` between its open() and its read(); then `d` more
    operations and a second, complete reader.  Returns (total writer ops seen so far, exists seen by
    reader 1, result 1, result 2)."""
    import threading
    import pathlib
    import bblean._memory as mem
    go, arrived = threading.Semaphore(0), threading.Semaphore(0)
    state = {"finished": False, "ops": 0, "abort": False}

    class _Abort(Exception):
        pass

    def gate():
        arrived.release()
        go.acquire()
        if state["abort"]:
            raise _Abort()
        state["ops"] += 1

    class FileProxy:
        def __init__(self, f):
            self._f = f

        def write(self, x):
            gate()
            return self._f.write(x)

        def flush(self):
            gate()
            return self._f.flush()

        def truncate(self, *aa):
            gate()
            return self._f.truncate(*aa)

        def fileno(self):
            return self._f.fileno()

        def __enter__(self):
            return self

        def __exit__(self, *aa):
            gate()
            self._f.close()
            return False

        def __getattr__(self, k):
            return getattr(self._f, k)

    fd_paths = {}
    hooks = {"after_open_read": None}

    def open_spy(path, *aa, **kw):
        mode = kw.get("mode", aa[0] if aa else "r")
        real_path = fd_paths.get(path, path) if isinstance(path, int) else path
        mine = "max-rss" in Path(str(real_path)).name
        if mine and any(ch in mode for ch in "wa+x"):
            gate()
            return FileProxy(builtins.open(path, *aa, **kw))
        f = builtins.open(path, *aa, **kw)
        if mine and hooks["after_open_read"]:
            hooks["after_open_read"]()
        return f

    class OsProxy:
        def __getattr__(self, k):
            return getattr(os, k)

        def fsync(self, fd):
            try:
                pth = os.readlink(f"/proc/self/fd/{fd}")
            except OSError:
                pth = ""
            if "max-rss" in Path(pth).name:
                gate()
            return os.fsync(fd)

        def replace(self, x, y):
            if "max-rss" in Path(str(y)).name:
                gate()
            return os.replace(x, y)

        def rename(self, x, y):
            if "max-rss" in Path(str(y)).name:
                gate()
            return os.rename(x, y)

        def open(self, path, *aa, **kw):
            fd = os.open(path, *aa, **kw)
            fd_paths[fd] = path
            return fd

    it = iter(samples_bytes)

    class FakeMem:
        def __init__(self, rss):
            self.rss = rss

    class FakeProc:
        pid = -1

        def __init__(self, pid=None):
            pass

        def memory_info(self):
            try:
                return FakeMem(next(it))
            except StopIteration:
                raise _Stop()

        def children(self, recursive=False):
            return []

    class PsProxy:
        Process = FakeProc
        NoSuchProcess = Exception

    class TimeProxy:
        def sleep(self, x):
            return None

        def perf_counter(self):
            return 0.0

    saved = (mem.__dict__.get("open"), mem.os, mem.psutil, mem.time)
    mem.open, mem.os, mem.psutil, mem.time = open_spy, OsProxy(), PsProxy(), TimeProxy()

    def writer():
        try:
            mem.monitor_rss_process(out_dir / "monitor-rss.csv", 0.0, 0.0, 1)
        except (_Stop, _Abort):
            pass
        except BaseException as e:            # the monitor died: recorded for the caller
            state["error"] = f"{type(e).__name__}: {e}"[:200]
        finally:
            state["finished"] = True
            arrived.release()

    th = threading.Thread(target=writer, daemon=True)
    th.start()
    arrived.acquire()                      # the writer stands before its first operation (or is done)

    def advance(k):
        for _ in range(k):
            if state["finished"]:
                return
            go.release()
            arrived.acquire()

    def reader(b_ops, c_ops):
        seen = {"exists": None}
        real_exists = pathlib.Path.exists

        def exists_spy(self, *aa, **kw):
            r = real_exists(self, *aa, **kw)
            if self.name == "max-rss.txt" and seen["exists"] is None:
                seen["exists"] = r
                advance(b_ops)
            return r
        hooks["after_open_read"] = lambda: advance(c_ops)
        pathlib.Path.exists = exists_spy
        try:
            v = mem.get_peak_memory_gib(out_dir)
            res = ("none",) if v is None else ("val", float(v))
        except Exception as e:
            res = ("error", f"{type(e).__name__}: {e}"[:120])
        finally:
            pathlib.Path.exists = real_exists
            hooks["after_open_read"] = None
        return seen["exists"], res
    run_interleaved.last_error = None
    try:
        advance(a)
        if between is not None:
            between()
        ex1, r1 = reader(b, c)
        ops1 = state["ops"]
        advance(d)
        _, r2 = reader(0, 0)
        ops2 = state["ops"]
    finally:
        state["abort"] = True
        while not state["finished"]:
            go.release()
            arrived.acquire()
        th.join(timeout=5)
        run_interleaved.last_error = state.get("error")
        if saved[0] is None:
            del mem.open
        else:
            mem.open = saved[0]
        mem.os, mem.psutil, mem.time = saved[1], saved[2], saved[3]
    return ops1, ops2, ex1, r1, r2


def suite_monitor_interleave(seed, tier):
    """every sub-step of the real reader interleaved with the writer's file operations"""
    rng = random.Random(seed + 11)
    r = Result("monitor-interleave")
    n_seq = 6 if tier == "quick" else 40
    per_seq = 40 if tier == "quick" else 400
    terms, meta = [], []

    def rterm(res):
        return "RNone" if res[0] == "none" else f"(RSome {cfloat(res[1])})" if res[0] == "val" else "RError"
    for _ in range(n_seq):
        samples = gen_samples(rng)
        gib = [x * (1 / 1024 ** 3) for x in samples]
        mx, maxima = 0.0, []
        for g in gib:
            if g > mx:
                mx = g
                maxima.append(g)
        T = 6 * len(maxima)
        combos = [(a, b, c, d) for a in range(T + 1) for b in range(0, min(4, T - a) + 1)
                  for c in range(0, min(7, T - a - b) + 1) for d in (0, 1, 5, 7)]
        if len(combos) > per_seq:
            combos = rng.sample(combos, per_seq)
        for a, b, c, d in combos:
            with tempfile.TemporaryDirectory(prefix="verif_mon_") as tmp:
                ops1, ops2, ex1, r1, r2 = run_interleaved(samples, Path(tmp), a, b, c, d)
            info = {"samples_bytes": samples, "schedule": [a, b, c, d]}
            for res in (r1, r2):
                if res[0] == "error":
                    r.bad.append({"suite": "monitor-interleave", "what": f"reader raised: {res[1]}", **info})
                elif res[0] == "val" and res[1] not in maxima:
                    r.bad.append({"suite": "monitor-interleave", "what": f"reader obtained {res[1]!r}, never a "
                                  "recorded peak", **info})
            if r1[0] == "val" and (r2[0] == "none" or (r2[0] == "val" and r2[1] < r1[1])):
                r.bad.append({"suite": "monitor-interleave", "what": "a later reader saw a smaller peak (or none) "
                              f"than an earlier one: {r1} then {r2}", **info})
            # the same schedule on Model/Monitor.v (exists+open is one model step at open time)
            if ex1:
                sched = [0] * (a + b) + [1] + [0] * c + [1]
            else:
                sched = [0] * a + [1]
            done1 = sum(1 for x in sched if x == 0)
            sched += [0] * max(0, ops2 - done1) + [2, 2]
            # ... and on the finer reader exec3, whose exists() and open() are separate steps
            if ex1:
                s3 = ["true"] * a + ["false"] + ["true"] * b + ["false"] + ["true"] * c + ["false"]
            else:
                s3 = ["true"] * a + ["false"]
            terms.append(f"(let '(_, r1, r2) := exec2 {clist(sched, str)}%nat (writer {clist(gib, cfloat)} 0) fs0 "
                         f"RStart RStart in rstate_eqb r1 (RDone {rterm(r1)}) && rstate_eqb r2 (RDone {rterm(r2)})) "
                         f"&& (match snd (exec3 {clist(s3, str)} (writer {clist(gib, cfloat)} 0) fs0 R3Start) with "
                         f"R3Done x => rres_eqb x {rterm(r1)} | _ => false end)")
            meta.append(info)
    pre = ("From BB Require Import Model.Monitor.\nOpen Scope Z_scope.\n"
           "Definition rres_eqb (a b : rres) : bool := match a, b with RNone, RNone | RError, RError => true "
           "| RSome x, RSome y => feq_bits x y | _, _ => false end.\n"
           "Definition rstate_eqb (a b : rstate) : bool := match a, b with RDone x, RDone y => rres_eqb x y "
           "| _, _ => false end.\n")
    out = eval_cases("monitor-il", pre, terms, shard=200)
    for m, o in zip(meta, out):
        if o.strip() != "true":
            r.bad.append({"suite": "monitor-interleave", "what": "reader results differ from Model/Monitor.v "
                          "(exec2 / exec3) for this schedule", **m})
    r.cases = len(terms)
    r.nontrivial = len({(str(m["samples_bytes"]), tuple(m["schedule"])) for m in meta})
    r.stats = {"sample_sequences": n_seq, "schedules": len(terms)}
    r.samples = meta[:1]
    return r


def suite_monitor_vs_run(seed, tier):
    """`Enabling or disabling monitoring does not change any clustering output`, and the run does not disturb
    the monitor: the real monitor is stopped before each of its file operations, a complete multi-round run
    is made in the SAME output directory at that instant, then the monitor continues.  The run must
    succeed with the final files of a run without monitoring, the monitor must not die, and afterwards the
    reader must see the last peak."""
    import suite_mr
    rng = random.Random(seed + 19)
    r = Result("monitor-vs-run")
    n_seq = 2 if tier == "quick" else 12
    for _ in range(n_seq):
        samples = gen_samples(rng)
        gib = [x * (1 / 1024 ** 3) for x in samples]
        mx, maxima = 0.0, []
        for g in gib:
            if g > mx:
                mx = g
                maxima.append(g)
        if not maxima:
            continue
        case = suite_mr.gen_mr_case(rng)
        while len(case["files"]) < 2:
            case = suite_mr.gen_mr_case(rng)
        case["cfg"]["cleanup"] = rng.random() < 0.5
        T = 6 * len(maxima)
        positions = sorted(set(range(0, min(T, 7))) | set(rng.sample(range(T + 1), min(T + 1, 4 if tier == "quick" else 12))))
        with tempfile.TemporaryDirectory(prefix="verif_monrun_") as tmp:
            tmp = Path(tmp)
            (tmp / "in").mkdir()
            paths = suite_mr.write_inputs(case, tmp / "in")
            (tmp / "ref").mkdir()
            try:
                suite_mr.run_impl(case, tmp / "ref", None, paths=paths)
            except Exception:
                continue
            ref = suite_mr.finals(suite_mr.read_dir(tmp / "ref", case["nf"]))
            for a in positions:
                out = tmp / f"o{a}"
                out.mkdir()
                res = {}

                def between(out=out, res=res):
                    try:
                        suite_mr.run_impl(case, out, None, paths=paths)
                        res["finals"] = suite_mr.finals(suite_mr.read_dir(out, case["nf"]))
                    except Exception as e:
                        res["error"] = f"{type(e).__name__}: {e}"[:200]
                ops1, ops2, ex1, r1, r2 = run_interleaved(samples, out, a, 0, 0, T + 6, between=between)
                r.cases += 1
                info = {"samples_bytes": samples, "monitor_ops_before_the_run": a, "case": case}
                if "error" in res:
                    r.bad.append({"suite": "monitor-vs-run", "what": "with the monitor stopped before its file "
                                  f"operation #{a + 1}, the clustering run in the same directory failed: {res['error']}",
                                  **info})
                elif res.get("finals") != ref:
                    r.bad.append({"suite": "monitor-vs-run", "what": "monitoring changed the clustering output "
                                  f"(monitor stopped before its file operation #{a + 1})", **info})
                if run_interleaved.last_error:
                    r.bad.append({"suite": "monitor-vs-run", "what": "the monitor died after a clustering run started "
                                  f"in its directory before its file operation #{a + 1}: {run_interleaved.last_error}",
                                  **info})
                elif r2[0] != "val" or r2[1] != maxima[-1]:
                    r.bad.append({"suite": "monitor-vs-run", "what": f"after the monitor finished the reader obtained "
                                  f"{r2}, the last recorded peak is {maxima[-1]!r}", **info})
                shutil.rmtree(out, ignore_errors=True)
    r.nontrivial = r.cases
    r.stats = {"sample_sequences": n_seq, "positions": r.cases}
    r.samples = [{"what": "a complete run_multiround_bitbirch between two file operations of the monitor"}]
    return r


def monitor_vs_run_violation(samples, case, a):
    """one (sample sequence, workflow case, position) of suite monitor-vs-run; text or None"""
    import suite_mr
    gib = [x * (1 / 1024 ** 3) for x in samples]
    mx, maxima = 0.0, []
    for g in gib:
        if g > mx:
            mx = g
            maxima.append(g)
    with tempfile.TemporaryDirectory(prefix="verif_monrun_") as tmp:
        tmp = Path(tmp)
        (tmp / "in").mkdir()
        paths = suite_mr.write_inputs(case, tmp / "in")
        (tmp / "ref").mkdir()
        suite_mr.run_impl(case, tmp / "ref", None, paths=paths)
        ref = suite_mr.finals(suite_mr.read_dir(tmp / "ref", case["nf"]))
        out = tmp / "out"
        out.mkdir()
        res = {}

        def between():
            try:
                suite_mr.run_impl(case, out, None, paths=paths)
                res["finals"] = suite_mr.finals(suite_mr.read_dir(out, case["nf"]))
            except Exception as e:
                res["error"] = f"{type(e).__name__}: {e}"[:200]
        _, _, _, r1, r2 = run_interleaved(samples, out, a, 0, 0, 6 * len(maxima) + 6, between=between)
    if "error" in res:
        return f"the clustering run failed: {res['error']}"
    if res.get("finals") != ref:
        return "monitoring changed the clustering output"
    if run_interleaved.last_error:
        return f"the monitor died: {run_interleaved.last_error}"
    if r2[0] != "val" or r2[1] != maxima[-1]:
        return f"the reader obtained {r2} at the end"
    return None


def search_c20(seed, tier, failures):
    for kind, d in failures:
        if isinstance(d, dict) and d.get("suite") == "monitor-vs-run":
            v = monitor_vs_run_violation(d["samples_bytes"], d["case"], d["monitor_ops_before_the_run"])
            if v:
                return {"violation": d["what"], "samples_bytes": d["samples_bytes"], "case": d["case"],
                        "monitor_ops_before_the_run": d["monitor_ops_before_the_run"]}
    for kind, d in failures:
        if isinstance(d, dict) and d.get("suite") in ("monitor", "monitor-interleave", "monitor-global") \
                and "differ from Model" not in d.get("what", "") and "differs from Model" not in d.get("what", "") \
                and "not the modelled" not in d.get("what", ""):
            return {"violation": d["what"], "samples_bytes": d.get("samples_bytes"), "schedule": d.get("schedule"),
                    **({"placement": d["placement"]} if "placement" in d else {})}
    rr = suite_monitor_global(seed + 1, "quick")
    for d in rr.bad:
        return {"violation": d["what"], "samples_bytes": d["samples_bytes"], "placement": d["placement"]}
    rng = random.Random(seed + 1)
    for _ in range(400 if tier == "quick" else 5000):
        samples = gen_samples(rng)
        with tempfile.TemporaryDirectory(prefix="verif_mon_") as tmp:
            ev = run_monitor(samples, Path(tmp))
        last = None
        for op, name, res in ev:
            if res[0] == "error":
                return {"violation": f"reader raised after '{op}' on {name}: {res[1]}", "samples_bytes": samples}
            if res[0] == "val":
                if last is not None and res[1] < last:
                    return {"violation": "recorded peak decreased", "samples_bytes": samples}
                last = res[1]
    return None


def replay_c20(payload):
    fi = payload.get("failing_input")
    if not fi or not fi.get("samples_bytes"):
        return True
    if "monitor_ops_before_the_run" in fi:
        return monitor_vs_run_violation(fi["samples_bytes"], fi["case"], fi["monitor_ops_before_the_run"]) is None
    if fi.get("placement"):
        for label, parent, emu in global_placements():
            if label == fi["placement"] or fi["placement"].startswith("other") and label.startswith("other"):
                with tempfile.TemporaryDirectory(prefix="verif_mong_", dir=parent) as tmp:
                    return global_probe_violation(fi["samples_bytes"], Path(tmp), emulate_exdev=emu) is None
        return True
    if fi.get("schedule"):
        a, b, c, d = fi["schedule"]
        with tempfile.TemporaryDirectory(prefix="verif_mon_") as tmp:
            _, _, _, r1, r2 = run_interleaved(fi["samples_bytes"], Path(tmp), a, b, c, d)
        return not (r1[0] == "error" or r2[0] == "error" or
                    (r1[0] == "val" and (r2[0] == "none" or (r2[0] == "val" and r2[1] < r1[1]))))
    with tempfile.TemporaryDirectory(prefix="verif_mon_") as tmp:
        ev = run_monitor(fi["samples_bytes"], Path(tmp))
    return not any(res[0] == "error" for _, _, res in ev)


if __name__ == "__main__":
    import sys
    for sfn in (suite_monitor, suite_monitor_interleave):
        rr = sfn(int(sys.argv[1]) if len(sys.argv) > 1 else 1, sys.argv[2] if len(sys.argv) > 2 else "quick")
        print(rr.name, rr.cases, rr.nontrivial, len(rr.bad), rr.stats)
        for b in rr.bad[:3]:
            print(str(b)[:700])
