"""Per-property specifications: theorem files, theorem names, correspondence suites,
search oracle.  One function per property returning the spec dict (lazy imports)."""

COMMON_TRUST = [
    "correspondence harness (generators, state walkers, cases.v emitter) in /verif/harness",
    "NumPy/CPython behaviour of the operations the model mirrors (checked by the suites, not proved)",
]


def c12():
    import suite_bits
    import oracles
    return {
        "props_file": "Props/C12.v",
        "model_files": ["Model/ObsBits.v"],
        "theorems": ["C12_unpack_pack", "C12_popcount_paths", "C12_popcount_card",
                     "C12_packed_is_unpacked", "C12_incl_excl", "C12_symmetric",
                     "C12_centroid_majority", "C12_tanimoto_exact", "C12_tanimoto_empty_union",
                     "C12_range", "C12_matrix_entry", "C12_matrix_symmetric",
                     "C12_most_dissimilar", "C12_medoid", "C12_source_tie_centroid",
                     "C12_nonvacuous"],
        "suites": [suite_bits.suite_bits],
        "search": oracles.search_c12,
        "replay": oracles.replay_c12,
        "level": "proof",
        "rule": "bit matrices: exhaustive over small widths/rows + random widths 1..4096 "
                "(byte counts = and != 0 mod 8), densities incl. empty/full rows, aligned and "
                "1-byte-misaligned buffers; non-trivial = >=2 rows, not all zero, distinct input",
        "trusted": COMMON_TRUST,
        "assumptions": ["model functions of Model/Sim.v are tied to bblean by the bits suite "
                        "(bit-pattern comparison through vm_compute)"],
    }


def c10():
    import suite_merges
    import oracles
    return {
        "props_file": "Props/C10.v",
        "model_files": ["Model/Obs.v", "Model/ObsBits.v"],
        "theorems": ["C10_source_tie", "C10_ctor_tie", "C10_never", "C10_accept_not_below",
                     "C10_accept_stat_ge", "C10_threshold_mono",
                     "C10_tolerance_singleton_diam", "C10_tolerance_singleton_rad",
                     "C10_tolerance_general_diam", "C10_tolerance_general_rad",
                     "C10_slack_not_negative", "C10_slack_zero_from_1000",
                     "C10_slack_mono_tolerance", "C10_slack_nonneg", "C10_legacy",
                     "C10_exp_hyps_satisfiable", "C10_nonvacuous"],
        "suites": [suite_merges.suite_merges],
        "search": oracles.search_c10,
        "replay": oracles.replay_c10,
        "level": "proof",
        "rule": "consistent (old, nominee) count vectors incl. old_n in {1,2,999,1000,1001}, "
                "thresholds at the achieved statistic +-1 ulp, tolerances {0,0.05,1,10}, all six "
                "criteria; plus moment-collision stream; each criterion object called twice in "
                "shuffled order (purity); non-trivial = distinct argument tuples",
        "trusted": COMMON_TRUST + [
            "translator /verif/translator/py2coq.py + Gen/NumpySem.v (GenTie.v proves Gen = Model)",
            "numpy exp: Section hypotheses fexp_unit / fexp_mono_np (maps finite non-positive "
            "floats into [0,1], monotone there); recorded values used as a table in the suite"],
        "assumptions": ["libm exp is monotone and maps non-positive finite floats into [0,1]"],
    }


def c11():
    import suite_isim
    import oracles
    return {
        "props_file": "Props/C11.v",
        "model_files": ["Model/ObsBits.v"],
        "theorems": ["C11_source_tie_isim", "C11_source_tie_radius_compl",
                     "C11_source_tie_radius", "C11_source_tie_diameter", "C11_exact",
                     "C11_nowrap_partial", "C11_all_empty", "C11_two_is_tanimoto",
                     "C11_column_order", "C11_row_order", "C11_complementary", "C11_nonvacuous"],
        "suites": [suite_isim.suite_isim, suite_isim.suite_isim_wrappers],
        "search": oracles.search_c11,
        "replay": oracles.replay_c11,
        "level": "proof",
        "rule": "count vectors: exhaustive for small n and widths, width boundaries "
                "(127..257, 65534..65537, 2^32-1..2^33) with saturated columns in every unsigned "
                "dtype that holds the count, random magnitudes up to and beyond n*sum k = 2^63; "
                "wrappers on packed/unpacked fingerprint arrays; non-trivial = distinct, sum k > 0",
        "trusted": COMMON_TRUST + [
            "translator /verif/translator/py2coq.py + Gen/NumpySem.v (GenTie.v proves Gen = Model)"],
        "assumptions": ["C11_exact is proved for n*sum k < 2^52 (every intermediate exact); between "
                        "2^52 and 2^63 the theorem is C11_nowrap_partial (no uint64 wrap) and the "
                        "value is tied bit-exactly by correspondence, the relative-error bound of "
                        "DESIGN C11_wide_regime is not proved"],
    }


SPECS = {
    "C10": c10,
    "C11": c11,
    "C12": c12,
}
