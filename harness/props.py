"""Per-property specifications: theorem files, theorem names, correspondence suites,
search oracle.  One function per property returning the spec dict (lazy imports)."""

COMMON_TRUST = [
    "correspondence harness (generators, state walkers, cases.v emitter) in /verif/harness",
    "NumPy/CPython behaviour of the operations the model mirrors (checked by the suites, not proved)",
]


def c12():
    import suite_bits
    import oracles
    return {
        "props_file": "Props/C12.v",
        "model_files": ["Model/ObsBits.v"],
        "theorems": ["C12_unpack_pack", "C12_popcount_paths", "C12_popcount_card",
                     "C12_packed_is_unpacked", "C12_incl_excl", "C12_symmetric",
                     "C12_centroid_majority", "C12_nonvacuous"],
        "suites": [suite_bits.suite_bits],
        "search": oracles.search_c12,
        "replay": oracles.replay_c12,
        "level": "proof",
        "rule": "bit matrices: exhaustive over small widths/rows + random widths 1..4096 "
                "(byte counts = and != 0 mod 8), densities incl. empty/full rows, aligned and "
                "1-byte-misaligned buffers; non-trivial = >=2 rows, not all zero, distinct input",
        "trusted": COMMON_TRUST,
        "assumptions": ["model functions of Model/Sim.v are tied to bblean by the bits suite "
                        "(bit-pattern comparison through vm_compute)"],
    }


SPECS = {
    "C12": c12,
}
