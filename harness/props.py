"""Per-property specifications: theorem files, theorem names, correspondence suites,
search oracle.  One function per property returning the spec dict (lazy imports)."""

COMMON_TRUST = [
    "correspondence harness (generators, state walkers, cases.v emitter) in /verif/harness",
    "NumPy/CPython behaviour of the operations the model mirrors (checked by the suites, not proved)",
]


def c12():
    import suite_bits
    import oracles
    return {
        "props_file": "Props/C12.v",
        "model_files": ["Model/ObsBits.v"],
        "theorems": ["C12_unpack_pack", "C12_popcount_paths", "C12_popcount_card",
                     "C12_packed_is_unpacked", "C12_incl_excl", "C12_symmetric",
                     "C12_centroid_majority", "C12_tanimoto_exact", "C12_tanimoto_empty_union",
                     "C12_range", "C12_matrix_entry", "C12_matrix_symmetric",
                     "C12_most_dissimilar", "C12_medoid", "C12_source_tie_centroid",
                     "C12_nonvacuous",
                     "C12_first_pole_farthest_from_centroid", "C12_second_pole_farthest_from_first", "C12_poles_exact_rational", "C12_pole_self_similarity", "C12_medoid_small", "C12_medoid_in_range_always", "C12_medoid_first_nan", "C12_compl_isim_is_leave_one_out", "C12_centroid_single_row", "C12_centroid_of_rows_majority", "C12_centroid_single_member_cast"],
        "suites": [suite_bits.suite_bits, __import__('suite_numpysem').suite_numpysem],
        "search": oracles.search_c12,
        "replay": oracles.replay_c12,
        "level": "proof",
        "rule": "bit matrices: exhaustive over small widths/rows + random widths 1..4096 "
                "(byte counts = and != 0 mod 8), densities incl. empty/full rows, aligned and "
                "1-byte-misaligned buffers; non-trivial = >=2 rows, not all zero, distinct input",
        "trusted": COMMON_TRUST,
        "assumptions": ["model functions of Model/Sim.v are tied to bblean by the bits suite "
                        "(bit-pattern comparison through vm_compute)"],
    }


def c10():
    import suite_merges
    import oracles
    return {
        "props_file": "Props/C10.v",
        "model_files": ["Model/Obs.v", "Model/ObsBits.v"],
        "theorems": ["C10_source_tie", "C10_ctor_tie", "C10_never", "C10_accept_not_below",
                     "C10_accept_stat_ge", "C10_threshold_mono",
                     "C10_tolerance_singleton_diam", "C10_tolerance_singleton_rad",
                     "C10_tolerance_general_diam", "C10_tolerance_general_rad",
                     "C10_slack_not_negative", "C10_slack_zero_from_1000",
                     "C10_slack_mono_tolerance", "C10_slack_nonneg", "C10_legacy",
                     "C10_exp_hyps_satisfiable", "C10_nonvacuous"],
        "suites": [suite_merges.suite_merges, __import__('suite_numpysem').suite_numpysem],
        "search": oracles.search_c10,
        "replay": oracles.replay_c10,
        "level": "proof",
        "rule": "consistent (old, nominee) count vectors incl. old_n in {1,2,999,1000,1001}, "
                "thresholds at the achieved statistic +-1 ulp, tolerances {0,0.05,1,10}, all six "
                "criteria; plus moment-collision stream and big-moment stream (sum of squared counts next to 2^31, "
                "2^32, 2^33), acceptance checked against the exact rational statistic; each criterion object called twice in "
                "shuffled order (purity); non-trivial = distinct argument tuples",
        "trusted": COMMON_TRUST + [
            "translator /verif/translator/py2coq.py + Gen/NumpySem.v (Proofs/GenTie{Sim,Merges,Mem,Util,Mr}.v prove Gen = Model)",
            "numpy exp: Section hypotheses fexp_unit / fexp_mono_np (maps finite non-positive "
            "floats into [0,1], monotone there); recorded values used as a table in the suite"],
        "assumptions": ["libm exp is monotone and maps non-positive finite floats into [0,1]"],
    }


def c11():
    import suite_isim
    import oracles
    return {
        "props_file": "Props/C11.v",
        "model_files": ["Model/ObsBits.v"],
        "theorems": ["C11_source_tie_isim", "C11_source_tie_radius_compl",
                     "C11_source_tie_radius", "C11_source_tie_diameter", "C11_exact",
                     "C11_nowrap_partial", "C11_all_empty", "C11_two_is_tanimoto",
                     "C11_column_order", "C11_row_order", "C11_complementary", "C11_nonvacuous",
                     "C11_uint64_to_double_is_rne", "C11_no_cancellation", "C11_error_bound", "C11_error_vs_rounded", "C11_not_correctly_rounded_above_2p52_refuted"],
        "suites": [suite_isim.suite_isim, suite_isim.suite_isim_wrappers, __import__('suite_numpysem').suite_numpysem],
        "search": oracles.search_c11,
        "replay": oracles.replay_c11,
        "level": "proof",
        "rule": "count vectors: exhaustive for small n and widths, width boundaries "
                "(127..257, 65534..65537, 2^32-1..2^33) with saturated columns in every unsigned "
                "dtype that holds the count, random magnitudes up to and beyond n*sum k = 2^63; "
                "wrappers on packed/unpacked fingerprint arrays; non-trivial = distinct, sum k > 0",
        "trusted": COMMON_TRUST + [
            "translator /verif/translator/py2coq.py + Gen/NumpySem.v (Proofs/GenTie{Sim,Merges,Mem,Util,Mr}.v prove Gen = Model)"],
        "assumptions": ["C11_exact is proved for n*sum k < 2^52 (every intermediate exact); between "
                        "2^52 and 2^63 the theorem is C11_nowrap_partial (no uint64 wrap) and the "
                        "value is tied bit-exactly by correspondence, the relative-error bound of "
                        "DESIGN C11_wide_regime is not proved"],
    }


HIST_TRUST = COMMON_TRUST + [
    "hand-written tree/estimator model (Model/Tree.v, Model/Birch.v) tied to bblean/bitbirch.py by "
    "differential execution only; Python buffer aliasing between old and new trees is exercised, not modelled",
    "translator-tied kernels: merge criteria, iSIM, centroid (Proofs/GenTieSim.v, GenTieMerges.v)"]
HIST_RULE = ("random operation histories (fit in 4 input forms / failing fit / refine from arrays, .npy paths and "
             "sequences of paths / recluster with "
             "shuffle / set_merge / delete_internal_nodes / reset), 3-24 bits, branching 2-7, all six "
             "criteria, thresholds 0..1, noisy copies of 1-4 prototypes + zero/one/duplicate rows; "
             "model and implementation compared after every operation; non-trivial = distinct "
             "history with >= 2 fitted rows")


def c01():
    import suite_hist
    return {
        "props_file": "Props/C01.v",
        "theorems": ["C01_partition", "C01_every_step", "C01_failed_fit", "C01_nonvacuous",
                     "C01_labels", "C01_labels_partition", "C01_refine_labels", "C01_labels_nonvacuous", "C01_fit_stops_at_first_bad",
                     "C01_source_tie_fit_loop", "C01_source_tie_fit_buffers_loop", "C01_source_tie_fit_guards"],
        "suites": [suite_hist.suite_hist_api, suite_hist.suite_exhaustive, suite_hist.suite_boundary,
                   suite_hist.suite_seq_refine("C01")],
        "search": suite_hist.search_hist("C01"),
        "replay": suite_hist.replay_hist("C01"),
        "level": "proof",
        "rule": HIST_RULE,
        "trusted": HIST_TRUST,
        "assumptions": ["one feature count per tree, branching factors >= 2, < 2^64 fingerprints (ops_wf / ops_wf_l); "
                        "C01_partition is stated for the default numbering, C01_labels* for caller-supplied labels",
                        "sparse-matrix input and global_clustering are outside the model"],
    }


def c08():
    import suite_hist
    import suite_sub
    return {
        "props_file": "Props/C08.v",
        "theorems": ["C08_wellformed", "C08_wellformed_labels", "C08_meaning", "C08_every_insertion",
                     "C08_results_from_leaves", "C08_no_wrap_update", "C08_width_matters",
                     "C08_source_tie_insert", "C08_source_tie_split_leaf", "C08_source_tie_split_inner",
                     "C08_reachable_nodes_ok", "C08_row_is_source", "C08_reachable_insertions_are_source", "C08_source_tie_chain_splice"],
        "suites": [suite_hist.suite_seq_refine("C08"), suite_hist.suite_tiny_long("C08"), suite_hist.suite_tree_walk, suite_hist.suite_boundary,
                   suite_hist.suite_exhaustive, suite_sub.suite_sub],
        "search": suite_hist.search_hist("C08"),
        "replay": suite_hist.replay_hist("C08"),
        "level": "proof",
        "rule": HIST_RULE + "; whole internal tree compared (entries, buffers incl. dtype, member "
                "lists, centroid caches, leaf chain); boundary stream crosses 255->256 members in "
                "inner entries; sub-unit stream at every width boundary up to 2^40",
        "trusted": HIST_TRUST,
        "assumptions": ["private attributes (_root, _subclusters, _buffer, _packed_centroids_buf, "
                        "_prev_leaf/_next_leaf) are read by the harness; a refactor of those names "
                        "surfaces as no-failing-input-found"],
    }


def c09():
    import suite_hist
    import suite_mr

    def search(seed, tier, failures):
        hit = suite_hist.search_hist("C09")(seed, tier, failures)
        if hit is not None:
            return hit
        for kind, d in failures:
            if isinstance(d, dict) and "what" in d and "Model/" not in d["what"] and "case" in d:
                return {"violation": d["what"], "case": d["case"],
                        **({"dirty_first": d["dirty_first"]} if d.get("dirty_first") else {})}
            if isinstance(d, dict) and "big_cluster_seed" in d:
                return {"violation": d["what"], **{k: v for k, v in d.items() if k not in ("what", "suite")}}
        rr = suite_mr.suite_mr_files(seed + 1, "quick")
        for d in rr.bad:
            if "Model/" not in d["what"] and "separated" in d["what"]:
                return {"violation": d["what"], "case": d["case"]}
        return None

    def replay(payload):
        fi = payload.get("failing_input") or {}
        if "case" in fi or "big_cluster_seed" in fi:
            return suite_mr.replay_mr("C09")(payload)
        return suite_hist.replay_hist("C09")(payload)
    return {
        "props_file": "Props/C09.v",
        "theorems": ["C09_recluster", "C09_refine", "C09_fit", "C09_blocks_are_clusters", "C09_units",
                     "C09_multiround_coarsens", "C09_multiround_stay_together", "C09_round_lists_are_files",
                     "C09_history", "C09_history_keep", "C09_refine_side_condition_needed"],
        "model_files": ["Model/Obs.v", "Model/Multiround.v", "Gen/GMr.v", "Proofs/GenTieMr.v"],
        "suites": [suite_hist.suite_hist_api, suite_hist.suite_boundary, suite_mr.suite_mr_files,
                   suite_mr.suite_mr_big, suite_hist.suite_seq_refine("C09"), suite_mr.suite_mr_options],
        "search": search,
        "replay": replay,
        "level": "proof",
        "rule": HIST_RULE + "; multiround-files: random multi-round workflows (see C05) whose output "
                "directories are compared file by file with Model/Multiround.v, and on which the statement "
                "'a group of round r is inside one group of round r+1 / one final cluster, unless it is the "
                "cluster a task exploded into singletons' is evaluated directly",
        "trusted": HIST_TRUST,
        "assumptions": ["shuffle results are permutations (recorded from random.shuffle)",
                        "multi-round theorems: cleanup off (all rounds visible), nf < 2^52, N < 2^64, bf >= 2, bin >= 1"],
    }


def _c02_search(seed, tier, failures):
    import suite_hist
    import suite_sub
    import suite_rebuild
    for kind, d in failures:
        if isinstance(d, dict) and "sub_case" in d:
            v = suite_sub.sub_violation(d["sub_case"])
            if v:
                return {"sub_case": d["sub_case"], "violation": v,
                        "how": "harness/suite_sub.py: sub_violation(sub_case)"}
    if any(isinstance(d, dict) and "rebuild_case" in d for _, d in failures):
        hit = suite_rebuild.search(seed, tier, [f for f in failures if isinstance(f[1], dict) and "rebuild_case" in f[1]])
        if hit:
            return hit
    return suite_hist.search_hist("C02")(seed, tier, failures) or suite_rebuild.search(seed, tier, [])


def _c02_replay(payload):
    import suite_hist
    import suite_sub
    import suite_rebuild
    fi = payload.get("failing_input") or {}
    if "sub_case" in fi:
        return suite_sub.sub_violation(fi["sub_case"]) is None
    if "rebuild_case" in fi:
        return suite_rebuild.replay(payload)
    return suite_hist.replay_hist("C02")(payload)


def c02():
    import suite_hist
    import suite_sub
    return {
        "props_file": "Props/C02.v",
        "theorems": ["C02_exact", "C02_aligned", "C02_merge_exact", "C02_update_exact",
                     "C02_width_holds_count", "C02_boundary_255",
                     "C02_clusters_nonempty", "C02_centroid_is_majority",
                     "C02_exact_labels", "C02_labels_nonvacuous",
                     "C02_source_tie_update", "C02_source_tie_merge"],
        "suites": [suite_sub.suite_sub, suite_hist.suite_boundary, suite_hist.suite_tree_walk,
                   suite_hist.suite_seq_refine("C02"), __import__('suite_rebuild').suite_rebuild],
        "search": _c02_search,
        "replay": _c02_replay,
        "level": "proof",
        "rule": HIST_RULE + "; sub-unit stream: _BFSubcluster construct/update/merge with counts in "
                "{1..3,127,128,254..257,65534..65537,2^32-2..2^32+1,2^40} comparing values and dtype; "
                "boundary stream: clusters and inner entries crossing 255->256 members; rebuild: a tree saved as "
                "buffer files (hundreds of clusters per file) and rebuilt with _fit_buffers from the path, the "
                "array and a list",
        "trusted": HIST_TRUST,
        "assumptions": ["the X given to refinement is the data that was fitted (op_data)",
                        "counts >= 2^64 are refused by the real code (checked), out of the model"],
    }


def _c03_search(seed, tier, failures):
    import suite_hist
    import suite_mr
    import tempfile
    from pathlib import Path
    for kind, d in failures:
        if isinstance(d, dict) and d.get("suite") == "multiround-bound" and "case" in d:
            if _c03_replay({"failing_input": {"mr_bound_case": d["case"]}}) is False:
                return {"mr_bound_case": d["case"], "violation": d["what"],
                        "how": "harness/suite_mr.py: run_impl(case) then c03_mr_violation(case, read_dir(out))"}
    return suite_hist.search_hist("C03")(seed, tier, failures)


def _c03_replay(payload):
    import suite_hist
    import suite_mr
    import tempfile
    from pathlib import Path
    fi = payload.get("failing_input") or {}
    if "mr_bound_case" not in fi:
        return suite_hist.replay_hist("C03")(payload)
    case = fi["mr_bound_case"]
    with tempfile.TemporaryDirectory(prefix="verif_mrb_") as tmp:
        tmp = Path(tmp)
        (tmp / "in").mkdir()
        (tmp / "out").mkdir()
        try:
            suite_mr.run_impl(case, tmp / "out", tmp / "in")
        except Exception:
            return False
        return suite_mr.c03_mr_violation(case, suite_mr.read_dir(tmp / "out", case["nf"])) is None


def c03():
    import suite_hist
    import suite_merges
    return {
        "props_file": "Props/C03.v",
        "theorems": ["C03_bound", "C03_never_merge", "C03_merge_meets", "C03_not_below_is_ge",
                     "C03_step_grown", "C03_last_grown", "C03_last_grown_labels", "C03_step_grown_labels",
                     "C03_multiround_bound"],
        "suites": [suite_hist.suite_hist_api, suite_merges.suite_merges, suite_hist.suite_seq_refine("C03"),
                   __import__('suite_mr').suite_mr_bound],
        "search": _c03_search,
        "replay": _c03_replay,
        "model_files": ["Model/Obs.v", "Model/ObsBits.v"],
        "level": "proof",
        "rule": HIST_RULE + "; plus the merges stream of C10; multiround-bound: serial multi-round workflows with a "
                "(possibly negative) threshold shift, the bound checked exactly on the final clusters",
        "trusted": HIST_TRUST,
        "assumptions": ["custom MergeAcceptFunction objects promise nothing (built-in criteria only)",
                        "bound stated as 'statistic not below threshold'; equals '>=' for non-NaN "
                        "statistics (C03_not_below_is_ge; non-NaN proved in the exact regime, C11_exact)"],
    }


def c04():
    import suite_forms
    return {
        "props_file": "Props/C04.v",
        "theorems": ["C04_release_safe", "C04_no_release_when_disabled", "C04_source_tie", "C04_source_tie_ctor", "C04_source_tie_ctor_other", "C04_many_chunks", "C04_many_chunks_side_condition_needed",
                     "C04_chunks", "C04_run_chunks", "C04_packed_form", "C04_function",
                     "C04_release_example",
                     "C04_do_fit_chunks_labelled_eq", "C04_do_fit_chunks_default_continue", "C04_run_many_chunks_labelled",
                     "C04_source_tie_release_position", "C04_source_tie_release_step", "C04_source_tie_array_never_releases"],
        "model_files": ["Model/Obs.v", "Model/Mem.v"],
        "suites": [suite_forms.suite_forms, suite_forms.suite_mmap, __import__('suite_numpysem').suite_numpysem],
        "search": suite_forms.search_c04,
        "replay": suite_forms.replay_c04,
        "level": "proof",
        "rule": "forms: one row sequence supplied as {packed,unpacked} x {ndarray,list,.npy path} x "
                "integer dtypes, cut into 1-4 consecutive fit calls, and in another process with "
                "another hash seed: all equal and equal to the model on the decoded sequence; repeated runs after and "
                "in between unrelated estimators being created, re-tuned and used in the same process; "
                "mmap: .npy files on both sides of the 2 MiB release granularity, several row "
                "widths/item sizes, consecutive files on one tree; every madvise(DONTNEED) argument "
                "compared with Model/Mem.v and checked against file bounds and read cursor",
        "trusted": HIST_TRUST + ["kernel behaviour of madvise(MADV_DONTNEED) (the theorem bounds the "
                                 "arguments only)", "np.load(mmap_mode='r') maps the file from offset 0 "
                                 "(mapping base = data - offset; observed through _madvise_sequential)"],
        "assumptions": ["from_bb_input's int(pagesizex / cols) equals P / cols when cols | P (tied by "
                        "the mmap suite, not by the translator)"],
    }


def c07():
    import suite_hist
    import suite_c07
    return {
        "props_file": "Props/C07.v",
        "theorems": ["C07_insert_refines", "C07_fit_refines", "C07_stored_is_recomputed", "C07_nonvacuous_instance",
                     "C07_fit_groups_refines", "C07_fit_labels_refines", "C07_recluster_iter_refines", "C07_do_recluster_refines", "C07_refine_refines"],
        "model_files": ["Model/Obs.v", "Model/ObsBits.v", "Model/Spec.v"],
        "suites": [suite_hist.suite_tree_walk, suite_hist.suite_exhaustive,
                   suite_c07.suite_dissim_choice, suite_c07.suite_legacy, suite_c07.suite_reference_tall],
        "search": suite_c07.search_c07,
        "replay": suite_c07.replay_c07,
        "level": "proof",
        "rule": HIST_RULE + "; split-seed choice on node contents with odd and even entry counts "
                "and majority ties; legacy uint8/int64 variants on 2048-bit inputs, dense and sparse "
                "criteria-separating ones (differential testing, not proof); reference procedure on inputs with "
                "one family of 130..400 rows",
        "trusted": HIST_TRUST + ["bundled legacy implementations are compared by differential "
                                 "testing only (no theorem about bblean/_legacy)"],
        "assumptions": ["the reference procedure (Model/Spec.v) compares float64 Tanimoto values; "
                        "faithfulness to exact rational comparison is a separate lemma (OrderFacts) "
                        "for feature counts < 2^25"],
    }


def c17():
    import suite_config
    return {
        "props_file": "Props/C17.v",
        "theorems": ["C17_accept_iff", "C17_same_behaviour", "C17_frame", "C17_reset",
                     "C17_reset_behaves_fresh", "C17_nonvacuous",
                     "C17_source_tie_ctor", "C17_source_tie_set_merge", "C17_source_tie_setters",
                     "C17_seq_frame", "C17_seq_last_threshold_wins",
                     "C17_seq_last_branching_factor_wins", "C17_seq_tolerance_survives",
                     "C17_tolerance_only_call", "C17_call_idempotent",
                     "C17_name_only_equals_ctor_with_kept_tolerance", "C17_full_set_merge_equals_ctor",
                     "C17_seq_nonvacuous", "C17_source_reset_spares_config",
                     "C17_source_config_fields", "C17_source_reset_clears_data"],
        "model_files": ["Model/ObsCfg.v", "Gen/GConfig.v", "Proofs/GenTieConfig.v",
                        "Gen/GReset.v", "Proofs/GenTieReset.v"],
        "suites": [suite_config.suite_config, suite_config.suite_reset],
        "search": suite_config.search_c17,
        "replay": suite_config.replay_c17,
        "level": "proof",
        "rule": "random sequences constructor / set_merge(subset of arguments) / property setters over "
                "all criterion names (+ an unknown one), merge-function objects, tolerances; observed "
                "after every call: criterion, tolerance, threshold, branching factor, repr, and "
                "accept/reject on probe arguments; non-trivial = distinct sequence with >= 1 call "
                "after construction; reset: fit, re-configure (incl. branching factor), reset, re-configure, fit "
                "again — clusters, centroids and the whole tree compared with a freshly constructed estimator",
        "trusted": COMMON_TRUST + ["hand-written Model/Config.v tied to BitBirch.__init__/set_merge by "
                                   "differential execution only"],
        "assumptions": ["the legacy module-global set_merge is modelled only as 'refuses instance-level "
                        "changes'"],
    }


def c20():
    import suite_monitor
    return {
        "props_file": "Props/C20.v",
        "theorems": ["C20_reader_safe", "C20_monotone", "C20_final_value", "C20_inplace_refuted",
                     "C20_nonvacuous", "C20_two_readers_safe", "C20_two_readers_monotone", "C20_reader_exists_then_open_safe", "C20_reader_exists_then_open_refines",
                     "C20_published_never_disappears", "C20_source_tie_update_cond", "C20_run_spares_monitor_files",
                     "C20_source_tie_update_ops", "C20_source_tie_names", "C20_run_spares_source_names",
                     "C20_many_readers_safe", "C20_many_readers_monotone", "C20_many_readers_never_disappears",
                     "C20_execN_one_reader"],
        "model_files": ["Model/Monitor.v", "Gen/GMon.v", "Proofs/GenTieMon.v", "Gen/GMrDel.v", "Proofs/MonitorRun.v",
                        "Gen/GMonOps.v", "Proofs/GenTieMonOps.v"],
        "suites": [suite_monitor.suite_monitor, suite_monitor.suite_monitor_interleave, suite_monitor.suite_monitor_vs_run,
                   suite_monitor.suite_monitor_global],
        "search": suite_monitor.search_c20,
        "replay": suite_monitor.replay_c20,
        "level": "proof",
        "rule": "sample sequences (repeats, short and long decimal reprs, increasing and not); the real "
                "monitor (started through launch_monitor_rss_daemon with mp.Process run synchronously) runs "
                "in-process with every file operation intercepted and the real "
                "get_peak_memory_gib called after EVERY operation; operation sequence and reader results "
                "compared with Model/Monitor.v; monitor-interleave: the real writer runs in a thread that "
                "stops before each of its file operations while the real reader's own sub-steps (exists / "
                "open / read) are interleaved with it under schedules (a, b, c, d) followed by a second reader, compared with exec2 of the model (quick: 40, thorough: up to 400 sampled schedules per sample sequence); "
                "non-trivial = distinct sequence with >= 2 distinct values / distinct schedule",
        "trusted": COMMON_TRUST + ["POSIX rename atomicity (os.replace) and 'an open file keeps its inode "
                                   "content' — assumptions of the model", "float repr/parse round-trips",
                                   "the daemon shares no memory with the clustering process (OS process model); "
                                   "'monitoring on/off does not change outputs' is checked in the C15 CLI suite"],
        "assumptions": ["reader steps exists/open/read are modelled as acting on the inode that exists at open time"],
    }


def c18():
    import suite_labels
    return {
        "props_file": "Props/C18.v",
        "theorems": ["C18_assignments", "C18_same_label_same_cluster", "C18_never_unlabeled",
                     "C18_refused", "C18_sorted_largest_first", "C18_sklearn_labels",
                     "C18_predict_is_argmin", "C18_jaccard_symmetric",
                     "C18_sk_transform_shape", "C18_sk_transform_entry", "C18_jaccard_is_one_minus_tanimoto_exact", "C18_jaccard_range", "C18_sk_predict_range"],
        "model_files": ["Model/Obs.v", "Model/ObsBits.v", "Model/Labels.v"],
        "suites": [suite_labels.suite_labels, suite_labels.suite_label_states],
        "search": suite_labels.search_c18,
        "replay": suite_labels.replay_c18,
        "level": "proof",
        "rule": "fitted states reached through the scikit-learn wrappers (packed and unpacked estimator, "
                "compute_labels on/off, 1-3 incremental fit / partial_fit / fit_predict calls), all six "
                "criteria; labels_, fit_predict, get_assignments, predict, transform (bit patterns) and "
                "dump_assignments compared with Model/Labels.v and with the clusters directly; tall families (128..255 and "
                "256+ members next to a small cluster); label-states: get_assignments (sorted / unsorted, "
                "check_valid on/off) after every operation of refinement / re-clustering histories",
        "trusted": HIST_TRUST + ["SciPy's boolean Jaccard and sklearn.pairwise_distances(_argmin) "
                                 "(modelled as |a xor b|/|a or b| and first minimiser; checked, not proved)",
                                 "sklearn validation / metadata machinery is not modelled"],
        "assumptions": ["query rows are non-empty (as the property states)"],
    }


def c16():
    import suite_fps
    return {
        "props_file": "Props/C16.v",
        "theorems": ["C16_batches", "C16_batch_sizes", "C16_ranges_lookup", "C16_file_seq",
                     "C16_file_seq_unsorted", "C16_names_sorted", "C16_digits_enough",
                     "C16_split_merge", "C16_source_tie", "C16_parts_cover",
                     "C16_split_plan_digits", "C16_split_plan_names_sorted", "C16_split_plan_defined",
                     "C16_api", "C16_single_file_any_interleaving", "C16_single_file_any_schedule",
                     "C16_single_file_equals_api", "C16_multi_file_any_schedule",
                     "C16_overlapping_ranges_break", "C16_too_few_digits_break", "C16_shuffle_multiset",
                     "C16_seq_lookup_some_iff", "C16_seq_lookup_out_of_range", "C16_seq_lookup_empty", "C16_seq_lookup_repeats", "C16_seq_lookup_empty_files_irrelevant", "C16_split_parts_concat", "C16_split_part_sizes", "C16_split_names_sorted", "C16_split_merge_plan_any_order"],
        "model_files": ["Model/FpsUtil.v", "Model/FpsGen.v"],
        "suites": [suite_fps.suite_file_seq, suite_fps.suite_batches, suite_fps.suite_fps_cli,
                   __import__('suite_fpsgen').suite_fpsgen, __import__('suite_numpysem').suite_numpysem],
        "search": suite_fps.search_c16,
        "replay": suite_fps.replay_c16,
        "findings": {"multi-file-skip-invalid-no-index": suite_fps.finding_multi_file_skip_invalid},
        "level": "proof",
        "rule": "file-seq: 1-5 files (incl. empty ones) x sorted index lists with repeats / gaps, unsorted "
                "and out-of-range lists; batches: all (length, n) small; CLI: fps-split (-n / -m), "
                "fps-merge, fps-shuffle, fps-info (file, dir, 1-D, float), fps-from-smiles over parts x "
                "processes x pack with invalid SMILES at arbitrary positions (RDKit in-process API as "
                "reference); fps-gen: the real array-filler / file-creator calls made in-process in arbitrary "
                "order on real shared memory / a real directory vs Model/FpsGen.v",
        "trusted": COMMON_TRUST + ["RDKit (fp_of is an oracle), numpy Generator.shuffle (a permutation)",
                                   "translator for parse_num_per_batch (GenTieUtil.v)"],
        "assumptions": ["multi-process filling: in the model (Model/FpsGen.v) every interleaving of the workers' "
                        "single-row writes gives the API result (C16_single_file_any_interleaving); that the real "
                        "workers perform exactly those writes is checked by running their __call__ on real shared "
                        "memory in arbitrary order (suite fps-gen) and by 1..3 real processes (suite fps-cli), not proved",
                        "a fresh shared-memory block reads as zeros; np.delete / nonzero as modelled"],
    }


def c19():
    import suite_analysis
    return {
        "props_file": "Props/C19.v",
        "theorems": ["C19_selection", "C19_selection_maximal", "C19_counts", "C19_isim_direct",
                     "C19_member_order_irrelevant", "C19_dunn_rows", "C19_dunn_clusters",
                     "C19_chi_clusters", "C19_chi_rows", "C19_dbi_clusters",
                     "C19_dunn_singleton_refuted",
                     "C19_analysis_singletons", "C19_analysis_clusters_above", "C19_analysis_total_is_rows", "C19_analysis_counts_perm", "C19_analysis_counts_rows", "C19_dbi_terms_row_order", "C19_dbi_matrix_entry", "C19_dbi_matrix_symmetric", "C19_dbi_matrix_cluster_order", "C19_chi_terms_spec", "C19_chi_global_centroid_invariant", "C19_dunn_cluster_order_no_singletons"],
        "model_files": ["Model/Analysis.v", "Model/ObsBits.v"],
        "suites": [suite_analysis.suite_analysis, suite_analysis.suite_indices],
        "search": suite_analysis.search_c19,
        "replay": suite_analysis.replay_c19,
        "findings": {"dunn-singleton-nan-order": suite_analysis.finding_dunn_singleton},
        "level": "proof",
        "rule": "clusterings produced by BitBirch on noisy-prototype data; cluster_analysis over array / "
                ".npy file / file sequence providers, packed and unpacked, top in {None,1,2,5,20}, "
                "min_size 0-3, member lists in ascending and in adversarial orders; indices on the non-singleton "
                "clusters incl. 2 (quick) / 8 (thorough) tall cases (column sums beyond uint8; clusters below "
                "256 members whose sums together exceed 255) under EVERY cluster order, packed vs unpacked, 2 "
                "random permutations of clusters and rows for the other cases; file sequences whose given order is not "
                "lexicographic (descending names, unpadded part numbers, several directories), paths rewritten "
                "from case to case, clusterings with families of 128..400 members sharing scaffold bits",
        "trusted": COMMON_TRUST + ["NumPy's summation order in np.dot / np.sum of float arrays is not "
                                   "modelled: CHI/DBI are compared with the exact (rational) combination "
                                   "of the model's bit-exact terms within 1e-9 relative"],
        "assumptions": ["Dunn invariance under cluster order is proved for lists without NaN values; the "
                        "singleton case is an open finding"],
    }


def c15():
    import suite_cli
    return {
        "props_file": "Props/C15.v",
        "theorems": ["C15_nonempty_refused", "C15_overwrite", "C15_overwrite_never_refuses",
                     "C15_run_config_total", "C15_refine_options", "C15_plan_fits_all_files", "C15_validate_table",
                     "C15_tree_saved_last", "C15_source_tie_refine_options", "C15_source_tie_plan",
                     "C15_source_tie_validate_out", "C15_source_tie_validate_sites",
                     "C15_run_is_api_script", "C15_run_partition", "C15_run_centroids_exact", "C15_run_bound", "C15_run_total"],
        "model_files": ["Model/Cli.v", "Model/ObsCli.v", "Gen/GCli.v", "Proofs/GenTieCli.v", "Gen/GCliVd.v", "Proofs/GenTieCliVd.v"],
        "suites": [suite_cli.suite_cli],
        "search": suite_cli.search_c15,
        "replay": suite_cli.replay_c15,
        "level": "proof",
        "rule": "random combinations over: merge / refine / midsection criteria (all six names), refine-num, "
                "refine and recluster rounds, threshold changes, save-tree, save-centroids, overwrite with a "
                "dirty output dir, copy vs symlink, packed vs unpacked, n-features (incl. non-multiples of 8), "
                "single file vs directory, bin size, midsection rounds, initial-refine mode, split-after-mid, "
                "memory monitor on/off; one big-cluster multiround case (two dtype groups per file, bin size "
                "> number of inputs); `bb run` option sets chosen so that every pair of coarse option factors occurs; "
                "every run compared with the Python API called directly (clusters, centroids, the saved tree) and "
                "the calls made on the estimator with the plan of Model/Cli.v",
        "trusted": COMMON_TRUST + ["typer argument parsing and console output are not modelled",
                                   "hand model Model/Cli.v of the CLI's own decision logic, tied by the suite"],
        "assumptions": ["the hidden --recluster-shuffle option is switched off in the comparison (with its "
                        "default, an unseeded shuffle, neither CLI nor API is deterministic)"],
    }


def c14():
    import suite_mr
    return {
        "props_file": "Props/C14.v",
        "theorems": ["C14_rerun_equals_fresh", "C14_rerun_frame", "C14_globs_are_purged", "C14_cleanup",
                     "C14_no_partial_final", "C14_run_is_writes", "C14_failed_run_no_final", "C14_failed_run_no_final_any_subset",
                     "C14_nonvacuous", "C14_instance_not_trivial", "C14_source_tie_purge",
                     "C14_source_tie_cleanup", "C14_source_tie_publish", "C14_source_tie_publish_names",
                     "C14_publish_all", "C14_publish_prefix_no_final", "C14_publish_prefix_purged", "C14_pub_prefix_purged_gen", "C14_run_multiround_pub_eq", "C14_crash_in_publish_no_final", "C14_crash_in_publish_then_rerun"],
        "model_files": ["Model/Multiround.v", "Gen/GMr.v", "Proofs/GenTieMr.v", "Gen/GMrDel.v", "Proofs/GenTieMrDel.v", "Proofs/MrPublish.v"],
        "suites": [suite_mr.suite_crash, suite_mr.suite_worker_crash, suite_mr.suite_mr_files, __import__('suite_numpysem').suite_numpysem],
        "search": suite_mr.search_mr("C14"),
        "replay": suite_mr.replay_c14,
        "level": "proof",
        "rule": "crash: the real run_multiround_bitbirch is interrupted (exception) at EVERY file action "
                "(open-for-write, pickle.dump, rename) of a run, foreign files are added, and a re-run "
                "(same / changed threshold / fewer files) is made in the same directory; final files are "
                "compared with a fresh directory and the whole directory with Model/Multiround.v run on "
                "the leftovers; multiround-files: whole output directories vs the model from an empty "
                "directory; worker-crash: failures INSIDE pool workers (truncated input file, failing write of a "
                "round file; fork / forkserver, 2-3 processes): the run must fail, leave no final file, and a "
                "re-run must equal a fresh one; non-trivial = each (configuration, crash point) evaluated",
        "trusted": COMMON_TRUST + ["POSIX rename atomicity; a crash is modelled as stopping between two file "
                                   "actions (a torn single write leaves a file whose name is purged by the next run)",
                                   "translator tie for file names/globs: Gen/GMr.v + Proofs/GenTieMr.v"],
        "assumptions": ["fexp is a universally quantified parameter of every C14 theorem that mentions the workflow",
                        "dir_wf d0: a directory listing has distinct names (sorted by the model)"],
    }


def c05():
    import suite_mr
    return {
        "props_file": "Props/C05.v",
        "theorems": ["C05_partition_and_centroids", "C05_pairs_aligned", "C05_handed_over",
                     "C05_any_directory", "C05_nonvacuous", "C05_centroids_are_majority",
                     "C05_source_tie_names", "C05_source_tie_globs",
                     "C05_run_succeeds"],
        "model_files": ["Model/Multiround.v", "Gen/GMr.v", "Proofs/GenTieMr.v"],
        "suites": [suite_mr.suite_mr_files, suite_mr.suite_mr_big, suite_mr.suite_mr_options],
        "search": suite_mr.search_mr("C05"),
        "replay": suite_mr.replay_mr("C05"),
        "level": "proof",
        "rule": "random workflows (1..4 input files of unequal sizes, bin sizes, 0..3 midsection rounds, "
                "refinement full/split/none, splitting on/off, all criteria, threshold changes of either sign, "
                "packed/unpacked input, feature counts, centroids on/off, cleanup on/off) run through the real "
                "run_multiround_bitbirch; the C05 statement is evaluated on the output directory directly "
                "(partition, centroid alignment and exactness, every round buffer row = sums/count of its "
                "member list) and the whole directory (every file, every row) is compared with "
                "Model/Multiround.v; non-trivial = distinct case with >= 2 input files",
        "trusted": COMMON_TRUST + ["translator tie for file names/globs/batching: Gen/GMr.v + Proofs/GenTieMr.v",
                                   "np.save/np.load and pickle round trips (read back by the harness)"],
        "assumptions": ["nf < 2^52, N < 2^64, branching factor >= 2, bin size >= 1 (the CLI/API enforce or default these)",
                        "fexp is a universally quantified parameter"],
    }


def c06():
    import suite_mr
    return {
        "props_file": "Props/C06.v",
        "theorems": ["C06_sched_independent", "C06_live_reads", "C06_initial_round_interleave",
                     "C06_merging_round_interleave", "C06_initial_writes_disjoint",
                     "C06_merging_writes_disjoint", "C06_round_names_NoDup", "C06_nonvacuous",
                     "C06_source_tie_batch_width", "C06_source_tie_file_labels"],
        "model_files": ["Model/Multiround.v", "Gen/GMr.v", "Proofs/GenTieMr.v"],
        "suites": [suite_mr.suite_sched, suite_mr.suite_mr_files],
        "search": suite_mr.search_mr("C06"),
        "replay": suite_mr.replay_c06,
        "level": "proof",
        "rule": "sched: for random workflows with >= 3 input files the real run_multiround_bitbirch runs with "
                "an in-process pool stand-in that executes the tasks of every round in reversed / rotated / "
                "random order, and with real multiprocessing pools (fork and forkserver, 2..16 processes); "
                "whole output directories (all round files, cleanup off) are compared with the serial run and "
                "the (round, label, dtype) keys of every _save_bufs_and_mol_idxs call are checked for "
                "collisions; multiround-files ties the serial run to Model/Multiround.v; non-trivial = each "
                "(configuration, schedule) evaluated",
        "trusted": COMMON_TRUST + ["pool.map returns only after all tasks of the round finished (barrier) and a "
                                   "task communicates only through its files - assumptions of the model; OS "
                                   "scheduling itself is sampled by the real-pool runs, not proved",
                                   "translator tie for file names/globs/batching: Gen/GMr.v + Proofs/GenTieMr.v"],
        "assumptions": ["perm: any function returning a permutation of the task list of each round",
                        "fexp is a universally quantified parameter"],
    }


def c13():
    import suite_cpp
    import suite_bits
    return {
        "props_file": "Props/C13.v",
        "theorems": ["C13_popcount", "C13_unpack", "C13_unpack_1d", "C13_unpack_negative",
                     "C13_centroid_unpacked", "C13_centroid_packed", "C13_centroid_packed_nonbinary",
                     "C13_centroid_packed_len5", "C13_centroid_packed_recorded_witness", "C13_isim", "C13_arr_vec", "C13_argmin",
                     "C13_most_dissimilar", "C13_most_dissimilar_shape", "C13_nonvacuous",
                     "C13_nf_ok_nonmultiple",
                     "C13_add_rows", "C13_add_rows_wrap", "C13_add_rows_bits", "C13_isim_unpacked", "C13_isim_unpacked_bits", "C13_isim_packed", "C13_isim_packed_any", "C13_isim_packed_none", "C13_isim_packed_negative", "C13_isim_packed_colsum"],
        "model_files": ["Model/Cpp.v", "Model/ObsCpp.v", "Model/Sim.v"],
        "suites": [suite_cpp.suite_cpp_corpus, suite_cpp.suite_cpp, suite_cpp.suite_cpp_large, suite_cpp.suite_cpp_e2e, suite_bits.suite_bits],
        "search": suite_cpp.search_c13,
        "replay": suite_cpp.replay_c13,
        "level": "proof",
        "rule": "bblean/csrc/similarity.cpp is compiled UNMODIFIED from /repo's working tree on every run "
                "(g++ -O3 -march=nocona -mtune=haswell -mpopcnt, the flags of setup.py) against the pybind11 "
                "stand-in of /verif/cpp and called through ctypes with the data placed at addresses = "
                "0,1,4,8,33,56 (mod 64); per kernel (popcount, unpack, centroid-from-sum, iSIM-from-sum, "
                "array-vs-vector Tanimoto, most-dissimilar) random and boundary inputs (row widths 1..256 bytes "
                "on both sides of the 64-byte fast path, n_features of every residue mod 8 and beyond the row "
                "width, counts up to 2^33+ and 2^53+1, uint64 wrap-around, ties, all-zero/all-one rows) are "
                "compared bit-for-bit with bblean._py_similarity (the statement itself) and with Model/Cpp.v; "
                "cpp-e2e replaces the names bblean takes from _cpp_similarity by the compiled kernels and "
                "compares whole clusterings with the fallback; bits ties Model/Sim.v to the NumPy kernels; "
                "non-trivial = distinct input",
        "trusted": COMMON_TRUST + ["the pybind11 stand-in /verif/cpp/pybind11/*.h and shim.cpp (pointer/shape "
                                   "plumbing only, no kernel logic) stand for pybind11's array_t; g++ with the "
                                   "setup.py flags on this x86-64 host stands for the wheel build",
                                   "Model/Cpp.v is a hand transcription of the C++ loops, tied by correspondence only"],
        "assumptions": ["the [aligned] flag and every input size are universally quantified; counts < 2^63 (int64 argument)"],
    }


SPECS = {
    "C13": c13,
    "C06": c06,
    "C05": c05,
    "C14": c14,
    "C01": c01,
    "C15": c15,
    "C19": c19,
    "C16": c16,
    "C18": c18,
    "C20": c20,
    "C04": c04,
    "C07": c07,
    "C17": c17,
    "C02": c02,
    "C03": c03,
    "C08": c08,
    "C09": c09,
    "C10": c10,
    "C11": c11,
    "C12": c12,
}
