"""Suites for C04:
  forms  — one decoded row sequence supplied in every representation / chunking gives one
           result, equal to the model's (Model/Birch.v) on the decoded sequence
  mmap   — madvise(DONTNEED) calls while fitting .npy files: equal to Model/Mem.v
           (`fit_releases`) and, directly, inside the file and behind the read cursor
"""
import os
import random
import subprocess
import sys
import tempfile
import warnings
from pathlib import Path

import numpy as np

from common import cz, cfloat, clist, czl, cnat, eval_cases
from pipeline import Result
import hist

warnings.filterwarnings("ignore")


# ------------------------------------------------------------------ forms
def disturb(rng, cfg, nf):
    """unrelated activity in the same process: estimators built with the same and with other
    parameters, re-configured through every setter, fitted and re-clustered"""
    for same in (True, False):
        c = cfg if same else hist.gen_cfg(rng)
        other = hist.make_bb(c)
        data = {}
        rows, _ = hist.gen_fps(rng, rng.randint(2, 12), nf)
        hist.apply_op(other, {"op": "fit", "rows": rows, "labels": None, "form": "unpacked-array",
                              "bad_at": None}, data, nf)
        c2 = hist.gen_cfg(rng)
        if c["crit"] in hist.HAS_TOL:
            # the same criterion with another tolerance, through set_merge and through the property
            hist.apply_op(other, {"op": "setcfg", "crit": c["crit"], "tol": rng.choice([0.0, 0.3, 0.5, 0.9]),
                                  "thr": None, "bf": None}, data, nf)
            try:
                other.tolerance = rng.choice([0.0, 0.25, 0.6])
            except Exception:
                pass
        hist.apply_op(other, {"op": "setcfg", "crit": c2["crit"], "tol": c2["tol"], "thr": c2["thr"],
                              "bf": c2["bf"]}, data, nf)
        hist.apply_op(other, {"op": "recluster", "iters": 1, "extra": 0.0, "shuffle": False, "seed": 0,
                              "stop_early": False}, data, nf)
        hist.apply_op(other, {"op": "fit", "rows": rows[:3], "labels": None, "form": "packed-array",
                              "bad_at": None}, data, nf)


def fit_form(cfg, rows, nf, form, dtype, cuts, tmp, between=None, fortran=False):
    bb = hist.make_bb(cfg)
    A = np.array(rows, dtype=np.uint8).reshape(len(rows), nf)
    bounds = [0] + list(cuts) + [len(rows)]
    for a, b in zip(bounds[:-1], bounds[1:]):
        if a == b:
            continue
        if between is not None and a > 0:
            between()
        chunk = A[a:b]
        packed, kind = form.split("-")
        if packed == "packed":
            X = np.packbits(chunk, axis=1)
            kw = dict(input_is_packed=True, n_features=nf)
        else:
            X = chunk.astype(dtype)
            kw = dict(input_is_packed=False)
        if fortran and kind != "list":
            X = np.asfortranarray(X)          # column-major in memory; np.save keeps that order in the file
        if kind == "list":
            X = [r for r in X]
        elif kind == "path":
            p = Path(tmp) / f"x-{a}-{b}-{random.getrandbits(32):08x}.npy"
            np.save(p, X)
            X = p
        bb.fit(X, **kw)
    return (bb.get_cluster_mol_ids(sort=True), bb.get_cluster_mol_ids(sort=False),
            [np.asarray(c).tolist() for c in bb.get_centroids(packed=False)], bb.num_fitted_fps)


def suite_forms(seed, tier):
    rng = random.Random(seed)
    r = Result("forms")
    n_cases = 25 if tier == "quick" else 400
    terms, meta = [], []
    variants_run = 0
    with tempfile.TemporaryDirectory(prefix="verif_forms_") as tmp:
        for _ in range(n_cases):
            cfg = hist.gen_cfg(rng)
            nf = rng.choice([3, 5, 8, 11, 16, 24, 33])
            rows, _ = hist.gen_fps(rng, rng.randint(2, 40), nf)
            ref = None
            variants = []
            for form in ["unpacked-ndarray", "unpacked-list", "unpacked-path", "packed-ndarray",
                         "packed-list", "packed-path"]:
                dts = [np.uint8] if form.startswith("packed") else \
                    rng.sample([np.uint8, np.int8, np.uint16, np.int32, np.int64, np.uint64,
                                # byte order and bool are part of "any integer dtype" too
                                np.dtype(">u2"), np.dtype(">i4"), np.dtype(">i8"), np.dtype("<u4"), np.bool_], 3)
                for dt in dts:
                    k = rng.randint(0, 3)
                    cuts = sorted(rng.sample(range(1, len(rows)), min(k, len(rows) - 1))) if len(rows) > 1 else []
                    variants.append((form, dt, cuts))
            for vi, (form, dt, cuts) in enumerate(variants):
                # every third array / path variant is handed over column-major (Fortran order)
                fortran = (vi % 3 == 2) and not form.endswith("list")
                res = fit_form(cfg, rows, nf, form, dt, cuts, tmp, fortran=fortran)
                variants_run += 1
                if ref is None:
                    ref = res
                elif res != ref:
                    r.bad.append({"suite": "forms", "what": "representation changes the result",
                                  "cfg": cfg, "nf": nf, "rows": rows, "form": form + (" (Fortran order)" if fortran else ""),
                                  "dtype": np.dtype(dt).name, "cuts": cuts})
                    break
            # repeated runs in a process where OTHER estimators are created, re-configured and used in
            # between (also between two fit calls of the run itself): same sequence, same parameters,
            # same clusters
            if ref is not None and not any(b.get("rows") is rows for b in r.bad):
                disturb(rng, cfg, nf)
                again = fit_form(cfg, rows, nf, "unpacked-ndarray", np.uint8, [], tmp)
                cut = rng.randint(1, len(rows) - 1) if len(rows) > 1 else 0
                split = fit_form(cfg, rows, nf, "unpacked-ndarray", np.uint8, [cut] if cut else [], tmp,
                                 between=lambda: disturb(rng, cfg, nf))
                variants_run += 2
                if again != ref or split != ref:
                    r.bad.append({"suite": "forms", "what": "a repeated run with the same sequence and parameters "
                                  "gives other clusters after other estimators were configured and used in the "
                                  "same process" + ("" if again != ref else " between two fit calls of the run"),
                                  "cfg": cfg, "nf": nf, "rows": rows, "cut": cut})
            # model on the decoded sequence, in one call
            h = {"cfg": cfg, "nf": nf, "ops": [{"op": "fit", "rows": rows, "labels": None,
                                                "form": "unpacked-array", "bad_at": None}]}
            o = {"ok": True, "nfit": ref[3], "init": True, "released": False, "sorted": ref[0],
                 "unsorted": ref[1], "cents": ref[2], "assign": None, "tree": None}
            bb = hist.make_bb(cfg)
            bb.fit(np.array(rows, dtype=np.uint8).reshape(len(rows), nf), input_is_packed=False)
            o["assign"] = [int(a) for a in bb.get_assignments()]
            terms.append(hist.case_term(h, [(o, {})], False))
            meta.append({"cfg": cfg, "nf": nf, "rows": rows})
    out = eval_cases("forms", hist.exp_preamble(60), terms, shard=100)
    r.cases = variants_run
    r.nontrivial = len({str(m) for m in meta})
    for m, v in zip(meta, out):
        if v.strip().strip("()") != "-1":
            r.bad.append({"suite": "forms", "what": "model differs from the common result", **m})
    # another process / hash seed (thorough tier: several)
    procs = 1 if tier == "quick" else 6
    code = ("import sys,json,warnings;warnings.filterwarnings('ignore');import numpy as np;"
            "sys.path.insert(0,'%s');import hist;d=json.load(open(sys.argv[1]));"
            "bb=hist.make_bb(d['cfg']);bb.fit(np.array(d['rows'],dtype=np.uint8),input_is_packed=False);"
            "print(json.dumps(bb.get_cluster_mol_ids()))" % str(Path(__file__).parent))
    import json
    for k in range(procs):
        m = meta[k % len(meta)]
        with tempfile.NamedTemporaryFile("w", suffix=".json", delete=False) as f:
            json.dump(m, f)
        env = dict(os.environ, PYTHONHASHSEED=str(1000 + 37 * k))
        p = subprocess.run([sys.executable, "-c", code, f.name], capture_output=True, text=True, env=env)
        os.unlink(f.name)
        bb = hist.make_bb(m["cfg"])
        bb.fit(np.array(m["rows"], dtype=np.uint8), input_is_packed=False)
        if p.returncode != 0 or json.loads(p.stdout.strip().splitlines()[-1]) != bb.get_cluster_mol_ids():
            r.bad.append({"suite": "forms", "what": "another process gives another result", **m,
                          "stderr": p.stderr[-300:]})
    r.stats = {"sequences": n_cases, "variants_per_sequence": len(variants), "subprocess_runs": procs}
    r.samples = [{"cfg": meta[0]["cfg"], "nf": meta[0]["nf"], "n_rows": len(meta[0]["rows"])}]
    return r


# ------------------------------------------------------------------ mmap
def record_releases(paths, cols_bytes, dtype=np.uint8, unpacked=False):
    """fit the given .npy files consecutively on one tree; returns per file the list of
    (addr - mapping base, size, rows consumed in this call) and (offset, rows, itemsize)"""
    import bblean._memory as mem
    import bblean.bitbirch as bbm
    calls = []
    counter = {"rows": 0}
    Base = bbm._BFSubcluster

    class Counting(Base):
        __slots__ = ()

        def __init__(self, *a, **kw):
            if kw.get("linear_sum") is not None:
                counter["rows"] += 1
            super().__init__(*a, **kw)

    real = mem._madvise_dontneed
    real_seq = mem._madvise_sequential
    cur = {}

    def spy(addr, size):
        calls.append((addr - cur["base"], size, counter["rows"]))

    def spy_seq(addr, size):
        cur["base"] = addr      # address of the start of the mapping (data - offset)

    mem._madvise_dontneed = spy
    mem._madvise_sequential = spy_seq
    bbm._BFSubcluster = Counting
    out = []
    try:
        bb = bbm.BitBirch(threshold=0.0, branching_factor=50, merge_criterion="diameter")
        for p in paths:
            calls.clear()
            counter["rows"] = 0
            arr = np.load(p, mmap_mode="r")
            bb.fit(p, input_is_packed=not unpacked)
            out.append((list(calls), int(arr.offset), int(arr.shape[0]), int(arr.dtype.itemsize),
                        int(arr.shape[1])))
    finally:
        mem._madvise_dontneed = real
        mem._madvise_sequential = real_seq
        bbm._BFSubcluster = Base
    return out


def check_release_direct(rel, offset, rows, itemsize, cols, P):
    """the C04 statement itself: inside the mapped file and behind the read cursor"""
    row_bytes = cols * itemsize
    for a, sz, consumed in rel:
        if sz != P or a % P != 0 or a < 0:
            return f"release ({a},{sz}) is not a whole {P}-byte step from the start of the mapping"
        if a + sz > offset + consumed * row_bytes:
            return (f"release of bytes [{a},{a + sz}) is ahead of the read cursor "
                    f"({consumed} rows = byte {offset + consumed * row_bytes})")
        if a + sz > offset + rows * row_bytes:
            return f"release of bytes [{a},{a + sz}) reaches past the end of the file"
    return None


def gen_files(seed, tier, tmp):
    import mmap as _mmap
    P = _mmap.PAGESIZE * 512
    rng = random.Random(seed)
    plans = []
    per256 = P // 256
    if tier == "quick":
        plans = [(256, np.uint8, [per256 + 1]), (256, np.uint8, [5000, 4000]),
                 (1024, np.uint8, [P // 1024 * 2 + 3]), (96, np.uint8, [500]),
                 # row sizes above the .npy header that do NOT divide the release block: no release
                 (160, np.uint8, [P // 160 * 5 + 40]), (1000, np.uint8, [P // 1000 + 60]),
                 (3072, np.uint8, [2046])]
    else:
        plans = [(256, np.uint8, [per256 - 1]), (256, np.uint8, [per256]), (256, np.uint8, [per256 + 1]),
                 (256, np.uint8, [2 * per256 + 1]), (256, np.uint8, [5000, 4000, 9000]),
                 (256, np.uint8, [per256, 1, per256 + 7]), (1024, np.uint8, [P // 1024 * 3 + 1]),
                 (512, np.uint8, [P // 512 + 5, P // 512 - 5]), (96, np.uint8, [700]),
                 (64, np.uint8, [P // 64 + 9]), (128, np.uint16, [P // 128 + 3]),
                 (256, np.int64, [P // 256 + 3]),
                 (160, np.uint8, [P // 160 * 5 + 40]), (1000, np.uint8, [P // 1000 + 60]),
                 (3072, np.uint8, [2046]), (192, np.uint8, [P // 192 * 3 + 11]), (1000, np.uint16, [P // 2000 + 77])]
    files = []
    for k, (cols, dt, sizes) in enumerate(plans):
        paths = []
        for j, n in enumerate(sizes):
            unpacked = np.dtype(dt) != np.dtype(np.uint8)
            if unpacked:
                A = (np.arange(n * cols).reshape(n, cols) % 2).astype(dt)
            else:
                A = np.full((n, cols), 0xAA, dtype=np.uint8)
                A[:, 0] = rng.randint(0, 255)
            p = Path(tmp) / f"m{k}-{j}.npy"
            np.save(p, A)
            paths.append(p)
        files.append((paths, cols, dt))
    return files, P


def suite_mmap(seed, tier):
    r = Result("mmap")
    terms, meta = [], []
    with tempfile.TemporaryDirectory(prefix="verif_mmap_") as tmp:
        files, P = gen_files(seed, tier, tmp)
        for paths, cols, dt in files:
            unpacked = np.dtype(dt) != np.dtype(np.uint8)
            recs = record_releases(paths, cols, dt, unpacked)
            for (rel, offset, rows, itemsize, c), p in zip(recs, paths):
                v = check_release_direct(rel, offset, rows, itemsize, c, P)
                m = {"cols": c, "itemsize": itemsize, "rows": rows, "offset": offset,
                     "files_before": [int(np.load(q, mmap_mode='r').shape[0]) for q in paths[:paths.index(p)]],
                     "releases": rel}
                if v:
                    r.bad.append({"suite": "mmap", "what": v, **m})
                exp = clist(rel, lambda t: f"({cz(t[0])}, {cz(t[1])}, {cz(t[2])})")
                terms.append(f"list_eqb (fun a b => let '(x, y, z) := a in let '(u, v, w) := b in "
                             f"(x =? u) && (y =? v) && (z =? w)) "
                             f"(fit_releases (from_memmap {cz(P)} {cz(c)} {cz(offset)} {cz(offset)}) "
                             f"(Z.to_nat {cz(rows)}) 0) {exp}")
                meta.append(m)
    out = eval_cases("mmap", "From BB Require Import Model.Mem.\nOpen Scope Z_scope.\n", terms, shard=50)
    r.cases = len(terms)
    r.nontrivial = sum(1 for m in meta if m["releases"])
    for m, o in zip(meta, out):
        if o.strip() != "true":
            r.bad.append({"suite": "mmap", "what": "releases differ from Model/Mem.v", **m})
    r.stats = {"files": len(meta), "with_releases": r.nontrivial,
               "total_releases": sum(len(m["releases"]) for m in meta)}
    r.samples = [meta[0]]
    return r


def _direct_release(seed, tier=None):
    """the release rule evaluated directly on recorded madvise calls of larger files"""
    with tempfile.TemporaryDirectory(prefix="verif_mmap_") as tmp:
        files, P = gen_files(seed + 1, "thorough", tmp)
        for paths, cols, dt in files:
            recs = record_releases(paths, cols, dt, np.dtype(dt) != np.dtype(np.uint8))
            for (rel, offset, rows, itemsize, c) in recs:
                v = check_release_direct(rel, offset, rows, itemsize, c, P)
                if v:
                    return {"violation": v, "release_seed": seed,
                            "input": {"cols": c, "itemsize": itemsize, "rows": rows,
                                      "file_sizes": [int(np.load(q, mmap_mode='r').shape[0]) for q in paths]}}
    return None


def search_c04(seed, tier, failures):
    import replay_util
    return replay_util.make_search([suite_forms, suite_mmap], extra=_direct_release)(seed, tier, failures)


def replay_c04(payload):
    import replay_util
    fi = payload.get("failing_input") or {}
    if "release_seed" in fi:
        return _direct_release(fi["release_seed"]) is None
    return replay_util.make_replay([suite_forms, suite_mmap])(payload)


if __name__ == "__main__":
    for s in (suite_forms, suite_mmap):
        rr = s(int(sys.argv[1]) if len(sys.argv) > 1 else 1, sys.argv[2] if len(sys.argv) > 2 else "quick")
        print(rr.name, rr.cases, rr.nontrivial, len(rr.bad), rr.stats)
        for b in rr.bad[:3]:
            print(str(b)[:600])
