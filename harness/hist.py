"""Histories of BitBirch operations: generator, implementation driver, Coq case emitter.

A history is a JSON-able dict:
  {"cfg": {"crit": name, "tol": float|None, "thr": float, "bf": int},
   "nf": int,
   "ops": [ {"op": "fit", "rows": [[0,1,..],..], "labels": [..]|None, "form": "...",
             "bad_at": k|None, "chunks": ...},
            {"op": "refine", "n_largest": k, "initial_mol": 0},
            {"op": "recluster", "iters": i, "extra": x, "shuffle": bool, "seed": s, "stop_early": b},
            {"op": "setcfg", "crit": name|None, "tol": ..., "thr": ...|None, "bf": ...|None},
            {"op": "delete"}, {"op": "reset"} ]}
"""
import random
import warnings

import numpy as np

from common import cz, cbool, cfloat, clist, czl, cfpv, copt, cnat

warnings.filterwarnings("ignore")

CRITS = ["radius", "diameter", "tolerance-diameter", "tolerance-radius",
         "tolerance-legacy", "never-merge"]
HAS_TOL = {"tolerance-diameter", "tolerance-radius", "tolerance-legacy", "never-merge"}


# ------------------------------------------------------------------ generation
def gen_fps(rng: random.Random, n: int, nf: int, protos=None, noise=None):
    if protos is None:
        k = rng.randint(1, 4)
        dens = rng.choice([0.2, 0.5, 0.8])
        protos = [[1 if rng.random() < dens else 0 for _ in range(nf)] for _ in range(k)]
    if noise is None:
        noise = rng.choice([0.0, 0.05, 0.15, 0.3])
    rows = []
    for _ in range(n):
        r = rng.random()
        if r < 0.04:
            rows.append([0] * nf)
        elif r < 0.07:
            rows.append([1] * nf)
        elif r < 0.15 and rows:
            rows.append(list(rng.choice(rows)))
        else:
            p = rng.choice(protos)
            rows.append([b ^ (1 if rng.random() < noise else 0) for b in p])
    return rows, protos


def gen_cfg(rng: random.Random):
    crit = rng.choice(CRITS)
    tol = rng.choice([0.0, 0.05, 0.2, 1.0]) if crit in HAS_TOL else None
    thr = rng.choice([0.0, 0.1, 0.25, 0.3, 0.4, 0.5, 0.6, 0.65, 0.75, 0.9, 1.0])
    if rng.random() < 0.12:
        # a hair above / below a value the statistics really take (small rationals): a comparison with a
        # tolerance instead of `>=` then decides differently
        q = rng.randint(2, 9)
        base = rng.randint(1, q) / q
        thr = min(1.0, max(0.0, base * (1 + rng.choice([3e-6, -3e-6, 2e-9, -2e-9, 1e-12]))))
    bf = rng.choice([2, 2, 3, 3, 4, 5, 7])
    return {"crit": crit, "tol": tol, "thr": thr, "bf": bf}


def gen_history(rng: random.Random, max_ops: int = 8, max_rows: int = 20, with_bad=True, user_labels=False):
    """user_labels: every fit passes caller-chosen, distinct, non-contiguous labels
    (fit(X, reinsert_indices=...)); such histories contain no refine (refine indexes X by label)"""
    cfg = gen_cfg(rng)
    pool = list(range(0, 400))
    rng.shuffle(pool)
    nf = rng.choice([3, 5, 8, 11, 16, 24])
    ops = []
    protos = None
    n_ops = rng.randint(1, max_ops)
    fitted_any = False
    for _ in range(n_ops):
        r = rng.random()
        if not fitted_any or r < 0.45:
            n = rng.randint(1, max_rows)
            rows, protos = gen_fps(rng, n, nf, protos)
            op = {"op": "fit", "rows": rows, "labels": None,
                  "form": rng.choice(["unpacked-array", "unpacked-list", "packed-array",
                                      "packed-list"]),
                  "bad_at": None}
            if with_bad and rng.random() < 0.06 and n >= 2:
                op["form"] = "unpacked-list"
                op["bad_at"] = rng.randint(1, n - 1)
            if user_labels:
                op["labels"] = [pool.pop() for _ in range(n)]
                if rng.random() < 0.4:
                    op["labels"].sort()
            ops.append(op)
            fitted_any = True
        elif r < 0.58 and not user_labels:
            ops.append({"op": "refine", "n_largest": rng.choice([0, 1, 1, 2, 3, -1]),
                        "initial_mol": 0,
                        # (a SEQUENCE of files re-inserts the split members in sorted-label order and is
                        # modelled separately: Model/Multiround.refine_groups_seq, suites multiround-*)
                        "xform": rng.choice(["array", "array", "path", "packed-array", "packed-path"])})
        elif r < 0.72:
            ops.append({"op": "recluster", "iters": rng.choice([1, 1, 2, 3]),
                        "extra": rng.choice([0.0, 0.0, 0.05, -0.1]),
                        "shuffle": rng.random() < 0.5, "seed": rng.randint(0, 99),
                        "stop_early": rng.random() < 0.3})
        elif r < 0.86:
            c = gen_cfg(rng)
            op = {"op": "setcfg", "crit": None, "tol": None, "thr": None, "bf": None}
            if rng.random() < 0.6:
                op["crit"], op["tol"] = c["crit"], c["tol"]
            if rng.random() < 0.6:
                op["thr"] = c["thr"]
            if rng.random() < 0.25:
                op["bf"] = c["bf"]
            ops.append(op)
        elif r < 0.93:
            ops.append({"op": "delete"})
        else:
            ops.append({"op": "reset"})
            fitted_any = False
    return {"cfg": cfg, "nf": nf, "ops": ops}


# ------------------------------------------------------------------ implementation side
def make_bb(cfg):
    import bblean.bitbirch as bbm
    kw = dict(threshold=cfg["thr"], branching_factor=cfg["bf"], merge_criterion=cfg["crit"])
    if cfg["tol"] is not None:
        kw["tolerance"] = cfg["tol"]
    return bbm.BitBirch(**kw)


def _sub_obs(s, nf):
    buf = s._buffer
    cent = np.unpackbits(s.packed_centroid, count=nf).tolist() if len(s.packed_centroid) else []
    return (int(buf.dtype.itemsize * 8), int(buf[-1]), [int(v) for v in buf[:-1]], cent,
            [int(i) for i in s.mol_indices])


def walk_tree(bb):
    """Read-only walk of the real tree -> nested python structure (or None)."""
    root = bb._root
    if root is None:
        return None
    leaves = list(bb._get_leaves())
    pos = {id(l): i for i, l in enumerate(leaves)}
    nf = root.n_features

    def node(nd):
        subs = nd._subclusters
        cache = [np.unpackbits(nd._packed_centroids_buf[i], count=nf).tolist()
                 for i in range(len(subs))]
        bf = nd._packed_centroids_buf.shape[0] - 1
        if nd._prev_leaf is not None:
            for s in subs:
                assert s.child is None
            return ("leaf", pos.get(id(nd), -1), bf, [_sub_obs(s, nf) for s in subs], cache)
        return ("inner", bf, [(_sub_obs(s, nf), node(s.child)) for s in subs], cache)

    return node(root)


def observe(bb, ok: bool, walk: bool):
    o = {"ok": ok, "nfit": int(bb.num_fitted_fps), "init": bool(bb.is_init),
         "released": bool(bb._only_has_leaves)}
    if bb.is_init:
        o["sorted"] = [[int(i) for i in c] for c in bb.get_cluster_mol_ids(sort=True)]
        o["unsorted"] = [[int(i) for i in c] for c in bb.get_cluster_mol_ids(sort=False)]
        o["cents"] = [np.asarray(c).tolist() for c in bb.get_centroids(sort=True, packed=False)]
        try:
            o["assign"] = [int(a) for a in bb.get_assignments()]
        except Exception:
            o["assign"] = None
    else:
        o["sorted"], o["unsorted"], o["cents"], o["assign"] = [], [], [], None
    o["tree"] = walk_tree(bb) if walk else None
    return o


def apply_op(bb, op, data, nf):
    """Apply one op to the real estimator.  `data` maps label -> row for everything
    fitted so far (used as X for refinement).  Returns (ok, extra) where extra carries
    oracle values recorded from the run (shuffle permutations)."""
    import bblean.bitbirch as bbm
    kind = op["op"]
    extra = {}
    try:
        if kind == "fit":
            rows = [np.array(r, dtype=np.uint8) for r in op["rows"]]
            start = bb.num_fitted_fps
            labels = op["labels"]
            form = op["form"]
            kw = {}
            if labels is not None:
                kw["reinsert_indices"] = list(labels)
            # which labels must be held afterwards: all of them after a successful fit; those before the
            # malformed row when the fit fails on it; none when the fit is refused outright because the
            # internal nodes were released (documented ValueError until reset())
            labs = labels if labels is not None else list(range(start, start + len(rows)))
            good = op.get("bad_at")
            try:
                if good is not None:
                    X = [r.copy() for r in rows]
                    X[good] = np.zeros(nf + 16, dtype=np.uint8)
                    bb.fit(X, input_is_packed=False, **kw)
                elif form == "unpacked-array":
                    bb.fit(np.array(rows, dtype=np.uint8).reshape(len(rows), nf),
                           input_is_packed=False, **kw)
                elif form == "unpacked-list":
                    bb.fit(rows, input_is_packed=False, **kw)
                elif form == "packed-array":
                    bb.fit(np.packbits(np.array(rows, dtype=np.uint8).reshape(len(rows), nf),
                                       axis=-1), input_is_packed=True, n_features=nf, **kw)
                elif form == "packed-list":
                    bb.fit([np.packbits(r) for r in rows], input_is_packed=True,
                           n_features=nf, **kw)
                else:
                    raise AssertionError(form)
            except Exception as e:
                if good is not None and "released" not in str(e):
                    for l, r in zip(labs[:good], op["rows"][:good]):
                        data[l] = r
                raise
            for l, r in zip(labs, op["rows"]):
                data[l] = r
        elif kind == "refine":
            n = (max(data) + 1) if data else 0
            X = np.zeros((max(n, 1), nf), dtype=np.uint8)
            for l, r in data.items():
                X[l] = r
            extra["X"] = X.tolist()
            xform = op.get("xform", "array")
            if xform == "array":
                bb.refine_inplace(X, initial_mol=op["initial_mol"], input_is_packed=False,
                                  n_largest=op["n_largest"])
            else:
                # the same data handed over as a .npy path, a sequence of two .npy paths, packed or not
                import tempfile
                from pathlib import Path
                with tempfile.TemporaryDirectory(prefix="verif_refine_") as tmp:
                    packed = xform.startswith("packed")
                    Y = np.packbits(X, axis=1) if packed else X
                    kw = dict(input_is_packed=packed, n_largest=op["n_largest"], initial_mol=op["initial_mol"])
                    if xform.endswith("path"):
                        np.save(Path(tmp) / "x.npy", Y)
                        arg = Path(tmp) / "x.npy"
                    elif xform.endswith("seq"):
                        cut = max(1, len(Y) // 3)
                        # the sequence is taken in the order GIVEN: in half of the cases the file names sort the
                        # other way round (the second part is called x0), or numerically but not as strings
                        n0, n1 = [("x0.npy", "x1.npy"), ("x1.npy", "x0.npy"), ("x9.npy", "x10.npy"),
                                  ("x0.npy", "x1.npy")][(len(Y) + int(op["n_largest"])) % 4]
                        np.save(Path(tmp) / n0, Y[:cut])
                        np.save(Path(tmp) / n1, Y[cut:])
                        arg = [Path(tmp) / n0, Path(tmp) / n1] if len(Y) > cut else [Path(tmp) / n0]
                    else:
                        arg = Y
                    bb.refine_inplace(arg, **kw)
        elif kind == "recluster":
            perms = []
            real_shuffle = random.shuffle

            def spy(x):
                orig = list(x)
                real_shuffle(x)
                ids = {id(o): i for i, o in enumerate(orig)}
                perms.append([ids[id(o)] for o in x])

            bbm.random.shuffle = spy
            try:
                bb.recluster_inplace(iterations=op["iters"], extra_threshold=op["extra"],
                                     shuffle=op["shuffle"], seed=op["seed"],
                                     stop_early=op["stop_early"])
            finally:
                bbm.random.shuffle = real_shuffle
                extra["perms"] = perms
        elif kind == "setcfg":
            kw = {}
            if op["crit"] is not None:
                kw["criterion"] = op["crit"]
                if op["tol"] is not None:
                    kw["tolerance"] = op["tol"]
                bb.set_merge(**kw)
            if op["thr"] is not None:
                bb.threshold = op["thr"]
            if op["bf"] is not None:
                bb.branching_factor = op["bf"]
        elif kind == "delete":
            bb.delete_internal_nodes()
        elif kind == "reset":
            bb.reset()
            data.clear()
        else:
            raise AssertionError(kind)
        return True, extra
    except (ValueError, IndexError, AttributeError, TypeError, OverflowError) as e:
        extra["error"] = f"{type(e).__name__}: {e}"[:200]
        return False, extra


def run_impl(hist, walk=False):
    """Execute a history on the real code; returns per-op observations + oracle extras."""
    import bblean.bitbirch as bbm
    bbm._global_merge_accept = None
    bb = make_bb(hist["cfg"])
    data = {}
    res = []
    for op in hist["ops"]:
        ok, extra = apply_op(bb, op, data, hist["nf"])
        res.append((observe(bb, ok, walk), extra))
    return res


# ------------------------------------------------------------------ Coq emission
def crit_term(name, tol):
    t = cfloat(0.05 if tol is None else tol)
    return {
        "radius": "CRadius",
        "diameter": "CDiameter",
        "tolerance-diameter": f"(CTolDiameter {t} tol_decay (tol_offset fexp))",
        "tolerance-radius": f"(CTolRadius {t} tol_decay (tol_offset fexp))",
        "tolerance-legacy": f"(CTolLegacy {t})",
        "never-merge": f"(CNever {t} tol_decay (tol_offset fexp))",
    }[name]


def cfg_term(cfg):
    return f"(mkCfg {crit_term(cfg['crit'], cfg['tol'])} {cfloat(cfg['thr'])} {cz(cfg['bf'])})"


def op_term(op, extra, nf):
    k = op["op"]
    if k == "fit":
        rows = []
        for i, r in enumerate(op["rows"]):
            if op.get("bad_at") is not None and i >= op["bad_at"]:
                rows.append("None")
            else:
                rows.append(f"(Some {cfpv(r)})")
        labels = copt(op["labels"], czl)
        return f"(OFit {clist(rows)} {labels})"
    if k == "refine":
        X = extra.get("X", [])
        return f"(ORefine {clist(X, cfpv)} {cz(op['initial_mol'])} {cz(op['n_largest'])})"
    if k == "recluster":
        perms = extra.get("perms", [])
        ps = clist(perms, lambda p: clist(p, cnat))
        return (f"(ORecluster {cnat(op['iters'])} {cfloat(op['extra'])} {ps} "
                f"{cbool(op['stop_early'])})")
    if k == "setcfg":
        c = None if op["crit"] is None else crit_term(op["crit"], op["tol"])
        return (f"(OSetCfg {copt(c)} {copt(op['thr'], cfloat)} {copt(op['bf'], cz)})")
    if k == "delete":
        return "ODeleteInternal"
    if k == "reset":
        return "OReset"
    raise AssertionError(k)


def csub_term(s):
    bits, n, ls, cent, ids = s
    return f"({cz(bits)}, {cz(n)}, {czl(ls)}, {cfpv(cent)}, {czl(ids)})"


def ctree_term(t):
    if t[0] == "leaf":
        _, pos, bf, subs, cache = t
        return f"(CLeaf {cz(pos)} {cz(bf)} {clist(subs, csub_term)} {clist(cache, cfpv)})"
    _, bf, ents, cache = t
    es = clist(ents, lambda e: f"({csub_term(e[0])}, {ctree_term(e[1])})")
    return f"(CInner {cz(bf)} {es} {clist(cache, cfpv)})"


def obs_term(o):
    return ("(mkObs {out} {nfit} {init} {rel} {srt} {uns} {cents} {asg} {tree})".format(
        out="Ok" if o["ok"] else "Err", nfit=cz(o["nfit"]), init=cbool(o["init"]),
        rel=cbool(o["released"]),
        srt=clist(o["sorted"], czl), uns=clist(o["unsorted"], czl),
        cents=clist(o["cents"], cfpv), asg=copt(o["assign"], czl),
        tree=copt(o["tree"], ctree_term)))


def exp_preamble(max_n: int = 600, extra_ns=()) -> str:
    """`fexp` as the table of values numpy's exp returns on the arguments the tolerance
    criteria can produce (decay = 1e-3, n_max = 1000)."""
    pairs = []
    decay = 1e-3
    keys = {-decay * 1000}
    for n in list(range(0, max_n + 1)) + list(extra_ns):
        keys.add(-decay * n)
    for k in sorted(keys):
        pairs.append(f"({cfloat(k)}, {cfloat(float(np.exp(k)))})")
    return ("From BB Require Import Model.Obs.\nOpen Scope Z_scope.\n"
            f"Definition fexp := exp_table {clist(pairs)}.\n")


def case_term(hist, res, walk: bool):
    items = []
    for op, (o, extra) in zip(hist["ops"], res):
        items.append(f"({op_term(op, extra, hist['nf'])}, {obs_term(o)})")
    return (f"check_hist fexp {cbool(walk)} (init {cfg_term(hist['cfg'])}) "
            f"{clist(items)} 0")


def trace_term(hist, res):
    ops = [op_term(op, extra, hist["nf"]) for op, (o, extra) in zip(hist["ops"], res)]
    return f"trace_hist fexp (init {cfg_term(hist['cfg'])}) {clist(ops)}"
