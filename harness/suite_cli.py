"""Suite `cli` (C15): `bb run` and `bb multiround` through typer's CliRunner over
pairwise-style random option combinations, compared with the Python API used directly for
the same inputs and parameters; output-directory rules; monitoring on/off."""
import json
import multiprocessing as mp
import pickle
import random
import tempfile
import warnings
from pathlib import Path

import numpy as np

from pipeline import Result
from common import cz, cnat, cfloat, clist, cbool, copt, eval_cases
import hist

NAMES = {"radius": "NRadius", "diameter": "NDiameter", "tolerance": "NTolLegacy",
         "tolerance-legacy": "NTolLegacy", "tolerance-diameter": "NTolDiameter",
         "tolerance-radius": "NTolRadius", "never-merge": "NNever"}


class Spy:
    """replaces bblean.bitbirch.BitBirch while `bb run` executes and records the API calls the
    command makes on the estimator it creates (the plan of Model/Cli.v)"""

    def __init__(self, files):
        import bblean.bitbirch as bbm
        self.bbm = bbm
        self.real = bbm.BitBirch
        self.log = []
        self.files = [str(Path(f).resolve()) for f in files]
        spy = self

        class SpyBB(self.real):
            def __init__(self, *a, **kw):
                spy.log.append(("ctor", kw.get("merge_criterion"), kw.get("tolerance"), kw.get("threshold"),
                                kw.get("branching_factor")))
                super().__init__(*a, **kw)

            def fit(self, X, *a, **kw):
                k = spy.files.index(str(Path(X).resolve())) if isinstance(X, (str, Path)) else -1
                spy.log.append(("fit", k))
                return super().fit(X, *a, **kw)

            def set_merge(self, criterion=None, *a, **kw):
                spy.log.append(("set_merge", criterion, kw.get("tolerance"), kw.get("threshold")))
                return super().set_merge(criterion, *a, **kw)

            def refine_inplace(self, X, *a, **kw):
                spy.log.append(("refine", kw.get("n_largest")))
                return super().refine_inplace(X, *a, **kw)

            def recluster_inplace(self, *a, **kw):
                spy.log.append(("recluster",))
                return super().recluster_inplace(*a, **kw)

            def get_centroids_mol_ids(self, *a, **kw):
                spy.log.append(("save",))
                return super().get_centroids_mol_ids(*a, **kw)

            def get_cluster_mol_ids(self, *a, **kw):
                if not spy.log or spy.log[-1] != ("save",):
                    spy.log.append(("save",))
                return super().get_cluster_mol_ids(*a, **kw)

            def save(self, path, *a, **kw):       # pickles by class reference: save as the real class
                spy.log.append(("save_tree",))
                self.__class__ = spy.real
                spy.bbm.BitBirch = spy.real
                try:
                    return spy.real.save(self, path, *a, **kw)
                finally:
                    self.__class__ = SpyBB
                    spy.bbm.BitBirch = SpyBB
        self.cls = SpyBB

    def __enter__(self):
        self.bbm.BitBirch = self.cls
        return self

    def __exit__(self, *exc):
        self.bbm.BitBirch = self.real



# what a used output directory may hold (C15: with --overwrite "the directory holds only the new outputs",
# without it "left untouched"): a dotted file, an extension-less file, a sub-directory, a dotted sub-directory
DIRTY_KINDS = ["dotted file", "extension-less file + sub-directory", "previous-run look-alikes", "nested sub-directories"]


def make_dirty(out, kind):
    (out / "old.txt").write_text("precious")
    if kind == 1:
        (out / "NOTES").write_text("precious")
        (out / "backup").mkdir()
        (out / "backup" / "clusters").write_text("precious")
    elif kind == 2:
        (out / "clusters.pkl").write_bytes(b"precious")
        (out / "input-fps").mkdir()
        (out / "input-fps" / "zzz-old.npy").write_bytes(b"precious")
        (out / "stale-output").write_text("precious")
    elif kind == 3:
        (out / "a" / "b").mkdir(parents=True)
        (out / "a" / "b" / "deep").write_text("precious")
        (out / ".hidden").write_text("precious")


def dir_snapshot(out):
    """relative path -> content (None for directories), recursively"""
    snap = {}
    for p in sorted(out.rglob("*")):
        rel = str(p.relative_to(out))
        snap[rel] = None if p.is_dir() else p.read_bytes()
    return snap


def dirty_leftovers(out, before):
    """entries of the prepared directory that survive with their old content (files), or directories that
    still hold an old file"""
    left = []
    for rel, content in before.items():
        p = out / rel
        if content is not None and p.is_file() and p.read_bytes() == content:
            left.append(rel)
    return left


def call_term(c):
    if c[0] == "ctor":
        return f"(ACtor {NAMES.get(c[1], 'NUnknown')} {cfloat(c[2])} {cfloat(c[3])} {cz(c[4])})"
    if c[0] == "fit":
        return f"(AFitFile {cnat(c[1])})" if c[1] >= 0 else "ASave"
    if c[0] == "set_merge":
        return f"(ASetMerge {NAMES.get(c[1], 'NUnknown')} {cfloat(c[2])} {cfloat(c[3])})"
    if c[0] == "refine":
        return f"(ARefine {cz(c[1])})"
    if c[0] == "recluster":
        return "ARecluster"
    if c[0] == "save_tree":
        return "ASaveTree"
    return "ASave"


def opts_term(o):
    return (f"(mkRunOpts {NAMES[o['merge']]} {NAMES[o['refine_merge']]} {cfloat(o['tol'])} {cfloat(o['thr'])} "
            f"{cz(o['bf'])} {cfloat(o['change'])} {cz(o['refine_num'])} {copt(o['refine_rounds'], cz)} "
            f"{cz(o['recluster_rounds'])} {cbool(bool(o.get('save_tree')))})")

warnings.filterwarnings("ignore")


def invoke(args):
    from typer.testing import CliRunner
    from bblean.cli import app
    res = CliRunner().invoke(app, args)
    for ch in mp.active_children():        # memory-monitor daemons
        ch.terminate()
    return res.exit_code, res.output, res.exception


def make_inputs(rng, d: Path, packed, nf, nfiles, prefix_names=False):
    import suite_mr
    protos = None
    files = []
    for i in range(nfiles):
        rows, protos = hist.gen_fps(rng, rng.randint(6, 25), nf, protos, rng.choice([0.05, 0.15]))
        A = np.array(rows, dtype=np.uint8)
        # the command takes the files of a directory in sorted-NAME order; with one stem a prefix of the others
        # that order differs from the order by stem
        nm = suite_mr.PREFIX_NAMES[i] if prefix_names else f"part-{i}.npy"
        np.save(d / nm, np.packbits(A, axis=1) if packed else A)
        files.append(rows)
    return files


def gen_run_opts(rng):
    return {
        "merge": rng.choice(hist.CRITS), "refine_merge": rng.choice(hist.CRITS),
        "tol": rng.choice([0.05, 0.0, 0.2]), "thr": rng.choice([0.3, 0.5, 0.65]),
        "bf": rng.choice([3, 5, 50]), "change": rng.choice([0.0, 0.1, -0.1]),
        "refine_num": rng.choice([0, 1, 2]), "refine_rounds": rng.choice([None, 0, 0, 1, 2]),
        "recluster_rounds": rng.choice([0, 0, 1, 2]), "save_tree": rng.random() < 0.3,
        "save_centroids": rng.random() < 0.7, "copy": rng.random() < 0.5,
        "packed": rng.random() < 0.5, "nf": rng.choice([8, 16, 24, 12]),
        "single_file": rng.random() < 0.3, "monitor": rng.random() < 0.1,
        "overwrite": rng.random() < 0.3, "dirty": rng.choice([None, None, "file", "file"]),
    }


def run_factors(o):
    """coarse factors of a `bb run` option set, for pairwise covering"""
    rounds = o["refine_rounds"] if o["refine_rounds"] is not None else (1 if o["refine_num"] > 0 else 0)
    return (("refine", rounds > 0), ("recluster", o["recluster_rounds"] > 0), ("save_tree", o["save_tree"]),
            ("save_centroids", o["save_centroids"]), ("copy", o["copy"]), ("packed", o["packed"]),
            ("single_file", o["single_file"]), ("monitor", o["monitor"]), ("overwrite", o["overwrite"]),
            ("dirty", o["dirty"] is not None), ("change", o["change"] != 0.0),
            ("switch_merge", o["merge"] != o["refine_merge"]), ("nf_mult8", o["nf"] % 8 == 0))


def covering_run_opts(rng, n):
    """n option sets: greedily chosen from random candidates so that every pair of factor values
    occurs (the property quantifies over pairwise-covering combinations), then random ones"""
    cands = [gen_run_opts(rng) for _ in range(40 * n)]
    covered, chosen = set(), []

    def pairs(o):
        f = run_factors(o)
        return {(f[i], f[j]) for i in range(len(f)) for j in range(i + 1, len(f))}
    while len(chosen) < n and cands:
        best = max(cands, key=lambda o: len(pairs(o) - covered))
        if not pairs(best) - covered:
            break
        covered |= pairs(best)
        chosen.append(best)
        cands.remove(best)
    while len(chosen) < n:
        chosen.append(gen_run_opts(rng))
    return chosen


def api_run(o, paths):
    """the documented API sequence for the same parameters"""
    from bblean import BitBirch
    tree = BitBirch(branching_factor=o["bf"], threshold=o["thr"], merge_criterion=o["merge"],
                    tolerance=o["tol"])
    for p in paths:
        tree.fit(p, n_features=o["nf"], input_is_packed=o["packed"])
    refine_num = o["refine_num"]
    refine_rounds = o["refine_rounds"]
    if refine_rounds is None:   # documented default: one round iff clusters to refine were given
        refine_rounds = 1 if refine_num > 0 else 0
    if refine_rounds > 0 and refine_num == 0:
        refine_num = 1          # documented: refinement rounds imply at least one cluster to refine
    if o["recluster_rounds"] != 0 or refine_rounds != 0:
        tree.set_merge(o["refine_merge"], tolerance=o["tol"], threshold=o["thr"] + o["change"])
        for _ in range(refine_rounds):
            tree.refine_inplace(paths, input_is_packed=o["packed"], n_largest=refine_num)
        for _ in range(o["recluster_rounds"]):
            tree.recluster_inplace(shuffle=False)
    out = tree.get_centroids_mol_ids()
    api_run.last_tree = (float(tree.threshold), str(tree.merge_criterion), int(tree.branching_factor),
                         int(tree.num_fitted_fps),
                         [np.unpackbits(c, count=o["nf"]).tolist() for c in tree.get_centroids()])
    return ([[int(i) for i in c] for c in out["mol_ids"]],
            [np.unpackbits(c, count=o["nf"]).tolist() for c in out["centroids"]])


def run_args(o, in_path, out_dir):
    a = ["run", str(in_path), "-o", str(out_dir), "-b", str(o["bf"]), "-t", str(o["thr"]),
         "--set-merge", o["merge"], "--set-refine-merge", o["refine_merge"], "--tolerance", str(o["tol"]),
         "--refine-threshold-change", str(o["change"]), "--refine-num", str(o["refine_num"]),
         *(["--refine-rounds", str(o["refine_rounds"])] if o["refine_rounds"] is not None else []),
         "--recluster-rounds", str(o["recluster_rounds"]),
         "--n-features", str(o["nf"]), "--no-verbose", "--no-recluster-shuffle"]
    a += ["--save-tree"] if o["save_tree"] else ["--no-save-tree"]
    a += ["--save-centroids"] if o["save_centroids"] else ["--no-save-centroids"]
    a += ["--copy"] if o["copy"] else ["--no-copy"]
    a += ["--packed-input"] if o["packed"] else ["--unpacked-input"]
    if o["monitor"]:
        a += ["--monitor-mem", "--monitor-mem-seconds", "0.05"]
    if o["overwrite"]:
        a += ["--overwrite"]
    return a


def check_outputs(out_dir, o, ref_cl, ref_ce, input_names, what, ref_tree=None):
    probs = []
    names = {p.name for p in out_dir.iterdir()}
    if "clusters.pkl" not in names:
        return [f"{what}: clusters.pkl was not written"]
    cl = [[int(i) for i in c] for c in pickle.load(open(out_dir / "clusters.pkl", "rb"))]
    if cl != ref_cl:
        probs.append(f"{what}: clusters.pkl differs from the API result for the same parameters")
    if o["save_centroids"]:
        if "cluster-centroids-packed.pkl" not in names:
            probs.append(f"{what}: centroids requested but not written")
        else:
            ce = [np.unpackbits(c, count=o["nf"]).tolist()
                  for c in pickle.load(open(out_dir / "cluster-centroids-packed.pkl", "rb"))]
            if ce != ref_ce:
                probs.append(f"{what}: centroids differ from the API result")
    if o.get("save_tree"):
        if "bitbirch.pkl" not in names:
            probs.append(f"{what}: tree requested but bitbirch.pkl not written")
        else:
            from bblean import BitBirch
            t = BitBirch.load(out_dir / "bitbirch.pkl")
            if [[int(i) for i in c] for c in t.get_cluster_mol_ids()] != ref_cl and what == "run":
                probs.append(f"{what}: saved tree does not hold the reported clusters")
            if what == "run" and ref_tree is not None:
                got = (float(t.threshold), str(t.merge_criterion), int(t.branching_factor), int(t.num_fitted_fps),
                       [np.unpackbits(c, count=o["nf"]).tolist() for c in t.get_centroids()])
                if got != ref_tree:
                    probs.append(f"{what}: saved tree is not the tree the API sequence produces: (threshold, "
                                 f"criterion, branching factor, fitted) = {got[:4]}, API tree has {ref_tree[:4]}"
                                 + ("" if got[4] == ref_tree[4] else "; centroids differ"))
    if "config.json" not in names:
        probs.append(f"{what}: config.json missing")
    else:
        cfgj = json.load(open(out_dir / "config.json"))
        if "out_dir" not in cfgj or "input_files" not in cfgj:
            probs.append(f"{what}: config.json lacks out_dir/input_files")
    inp = out_dir / "input-fps"
    if not inp.is_dir() or sorted(p.name for p in inp.iterdir()) != sorted(input_names):
        probs.append(f"{what}: input-fps does not list the input files")
    elif o["copy"] == any(p.is_symlink() for p in inp.iterdir()) and list(inp.iterdir()):
        probs.append(f"{what}: copy/symlink option not honoured")
    return probs


def suite_cli(seed, tier):
    from bblean.multiround import run_multiround_bitbirch
    rng = random.Random(seed)
    r = Result("cli")
    n_run = 14 if tier == "quick" else 150
    n_mr = 6 if tier == "quick" else 60
    cases = 0
    terms, meta = [], []
    stats = {"run": 0, "multiround": 0, "refused": 0, "overwritten": 0, "monitor": 0}
    for i_run, o in enumerate(covering_run_opts(rng, n_run)):
        with tempfile.TemporaryDirectory(prefix="verif_cli_") as tmp:
            tmp = Path(tmp)
            ind = tmp / "in"
            ind.mkdir()
            make_inputs(rng, ind, o["packed"], o["nf"], 1 if o["single_file"] else rng.randint(2, 4),
                        prefix_names=(i_run % 3 == 1))
            paths = sorted(ind.glob("*.npy"))
            in_arg = paths[0] if o["single_file"] else ind
            use = [paths[0]] if o["single_file"] else paths
            out = tmp / "out"
            ref_cl, ref_ce = api_run(o, use)
            ref_tree = api_run.last_tree
            if o["dirty"]:
                out.mkdir()
                dirty_kind = i_run % 4
                make_dirty(out, dirty_kind)
                dirty_before = dir_snapshot(out)
            with Spy(use) as spy:
                rc, txt, exc = invoke(run_args(o, in_arg, out))
            cases += 1
            stats["run"] += 1
            # Model/Cli.v: the output-directory decision and the plan of API calls
            if o["dirty"] and not o["overwrite"]:
                seen = "VdErrHasFiles" if rc != 0 else "VdOk"
            elif o["dirty"]:
                seen = "VdCleared" if (rc == 0 and not dirty_leftovers(out, dirty_before)) else "VdOk"
            else:
                seen = "VdOk"
            terms.append(f"check_validate {cbool(bool(o['dirty']))} true {cbool(bool(o['dirty']))} "
                         f"{cbool(o['overwrite'])} {seen}")
            meta.append(("validate", {k: v for k, v in o.items()}))
            if rc == 0:
                terms.append(f"check_plan {opts_term(o)} {cnat(len(use))} {clist(spy.log, call_term)}")
                meta.append(("plan", {**{k: v for k, v in o.items()}, "observed_calls": [list(map(str, c)) for c in spy.log]}))
            stats["monitor"] += 1 if o["monitor"] else 0
            desc = {k: v for k, v in o.items()}
            if o["dirty"] and not o["overwrite"]:
                stats["refused"] += 1
                if rc == 0:
                    r.bad.append({"suite": "cli", "what": "run: a non-empty output directory was not refused", "opts": desc})
                elif dir_snapshot(out) != dirty_before:
                    r.bad.append({"suite": "cli", "what": "run: a refused non-empty output directory was modified", "opts": desc})
                continue
            if rc != 0:
                r.bad.append({"suite": "cli", "what": f"run: command failed (rc={rc}): {exc!r}"[:300], "opts": desc})
                continue
            if o["dirty"]:
                stats["overwritten"] += 1
                left = dirty_leftovers(out, dirty_before)
                if left:
                    r.bad.append({"suite": "cli", "what": "run: --overwrite left old entries in the output directory: "
                                  f"{left} (directory prepared with content class {DIRTY_KINDS[dirty_kind]})", "opts": desc})
            for pr in check_outputs(out, o, ref_cl, ref_ce, [p.name for p in use], "run", ref_tree):
                r.bad.append({"suite": "cli", "what": pr, "opts": desc})
    for k_mr in range(n_mr):
        import suite_mr
        case = suite_mr.gen_mr_case(rng)
        if case.get("names") == "samename":
            case["names"] = "padded"        # the command takes ONE directory of *.npy files
        if k_mr % 3 == 2 and len(case["files"]) <= len(suite_mr.PREFIX_NAMES):
            case["names"] = "prefix"
        c = case["cfg"]
        if k_mr == 0:
            # big clusters: round-1 writes two dtype groups per file, so the next round sees
            # more file pairs than input files; bin size larger than the number of inputs
            nrng = np.random.default_rng(rng.randint(0, 2 ** 31))
            nf = 256
            shared = (nrng.random(nf) < 0.35).astype(np.uint8)
            files = []
            for f in range(3):
                own = shared.copy()
                own[nrng.choice(nf, size=10 + 8 * f, replace=False)] ^= 1
                fam = np.tile(own, (300, 1))
                for row in fam:
                    row[nrng.choice(nf, size=int(nrng.integers(0, 7)), replace=False)] ^= 1
                mids = []
                for k in range(3):
                    mb = own.copy()
                    mb[nrng.choice(nf, size=20 + 6 * k, replace=False)] ^= 1
                    m = np.tile(mb, (12 + 5 * k, 1))
                    for row in m:
                        row[nrng.choice(nf, size=int(nrng.integers(0, 13)), replace=False)] ^= 1
                    mids.append(m)
                bg = (nrng.random((40, nf)) < 0.35).astype(np.uint8)
                A = np.concatenate([fam, *mids, bg]).astype(np.uint8)
                files.append(A[nrng.permutation(len(A))].tolist())
            case = {"nf": nf, "files": files, "cfg": {**c, "bf": 50, "thr": 0.6, "change": 0.0,
                    "init": "diameter", "mid": "diameter", "rounds": 1, "bin": 4, "refine": "none",
                    "split_after": False, "packed": True}}
            c = case["cfg"]
        c["final"] = None
        c["cleanup"] = True
        o = {"save_centroids": c["save_centroids"], "nf": case["nf"], "copy": rng.random() < 0.5,
             "save_tree": False}
        with tempfile.TemporaryDirectory(prefix="verif_cli_") as tmp:
            tmp = Path(tmp)
            ind = tmp / "in"
            ind.mkdir()
            (tmp / "api").mkdir()
            # `bb multiround` numbers molecules in sorted-file order: the API reference gets the
            # files in that order (write_inputs may name them so that it differs from the given one)
            paths = sorted(suite_mr.write_inputs(case, ind))
            try:
                suite_mr.run_impl(case, tmp / "api", None, paths=paths)
            except Exception as e:
                r.bad.append({"suite": "cli", "what": f"multiround API failed: {type(e).__name__}: {e}"[:200], "case": case})
                continue
            ents = dict(suite_mr.read_dir(tmp / "api", case["nf"]))
            ref_cl = ents["clusters.pkl"][1]
            ref_ce = ents.get("cluster-centroids-packed.pkl", (None, None))[1]
            args = ["multiround", str(ind), "-o", str(tmp / "out"), "--ps", "1", "-b", str(c["bf"]),
                    "-t", str(c["thr"]), "--mid-threshold-change", str(c["change"]),
                    "--set-merge", c["init"], "--set-mid-merge", c["mid"], "--tolerance", str(c["tol"]),
                    "--n-features", str(case["nf"]), "--num-mid-rounds", str(c["rounds"]),
                    "--bin-size", str(c["bin"]), "--initial-refine", c["refine"], "--no-verbose"]
            args += ["--split-after-mid"] if c["split_after"] else ["--no-split-after-mid"]
            args += ["--save-centroids"] if c["save_centroids"] else ["--no-save-centroids"]
            args += ["--packed-input"] if c["packed"] else ["--unpacked-input"]
            args += ["--copy"] if o["copy"] else ["--no-copy"]
            # every option must reach the API unchanged: spy on the function the command calls
            import bblean.multiround as mrmod
            seen_kw = {}
            real_run = mrmod.run_multiround_bitbirch

            def spy_run(*a, **kw):
                seen_kw.update(kw)
                return real_run(*a, **kw)
            procs_i = rng.choice([1, 1, 2, 3])
            procs_m = rng.randint(1, procs_i)       # the API requires mid <= initial
            mtpp = rng.choice([1, 2])
            args[args.index("--ps") + 1] = str(procs_i)
            args += ["--mid-ps", str(procs_m), "--max-tasks-per-process", str(mtpp)]
            args += ["--fork"] if rng.random() < 0.5 else ["--no-fork"]
            # used output directories (the command shares _validate_output_dir with `bb run`):
            # every third case overwrites one, every fifth must be refused and leave it untouched
            mr_dirty = "overwrite" if k_mr % 3 == 1 else "refuse" if k_mr % 5 == 3 else None
            if mr_dirty:
                (tmp / "out").mkdir()
                make_dirty(tmp / "out", k_mr % 4)
                mr_before = dir_snapshot(tmp / "out")
                if mr_dirty == "overwrite":
                    args += ["--overwrite"]
            mrmod.run_multiround_bitbirch = spy_run
            try:
                rc, txt, exc = invoke(args)
            finally:
                mrmod.run_multiround_bitbirch = real_run
            cases += 1
            stats["multiround"] += 1
            if mr_dirty == "refuse":
                stats["refused"] += 1
                if rc == 0 or seen_kw:
                    r.bad.append({"suite": "cli", "what": "multiround: a non-empty output directory was not refused", "cfg": c})
                elif dir_snapshot(tmp / "out") != mr_before:
                    r.bad.append({"suite": "cli", "what": "multiround: a refused non-empty output directory was modified", "cfg": c})
                continue
            if mr_dirty == "overwrite" and rc == 0:
                stats["overwritten"] += 1
                left = dirty_leftovers(tmp / "out", mr_before)
                if left:
                    r.bad.append({"suite": "cli", "what": "multiround: --overwrite left old entries in the output directory: "
                                  f"{left} (directory prepared with content class {DIRTY_KINDS[k_mr % 4]})", "cfg": c})
            want = {"n_features": case["nf"], "input_is_packed": c["packed"], "initial_merge_criterion": c["init"],
                    "midsection_merge_criterion": c["mid"], "branching_factor": c["bf"], "threshold": c["thr"],
                    "midsection_threshold_change": c["change"], "tolerance": c["tol"],
                    "save_centroids": c["save_centroids"], "bin_size": c["bin"],
                    "refinement_before_midsection": c["refine"], "num_midsection_rounds": c["rounds"],
                    "split_largest_after_each_midsection_round": c["split_after"], "cleanup": True,
                    "num_initial_processes": procs_i, "num_midsection_processes": procs_m,
                    "max_tasks_per_process": mtpp,
                    "input_files": [Path(q) for q in sorted(ind.glob("*.npy"))], "out_dir": tmp / "out"}
            if rc == 0 or seen_kw:
                for k, v in want.items():
                    got = seen_kw.get(k, "<not passed>")
                    if got != v and not (isinstance(v, Path) and Path(str(got)).resolve() == v.resolve()):
                        r.bad.append({"suite": "cli", "what": f"multiround: option '{k}' reached the API as "
                                      f"{str(got)[:80]!r} instead of {str(v)[:80]!r}", "cfg": c})
            if rc != 0:
                r.bad.append({"suite": "cli", "what": f"multiround: command failed (rc={rc}): {exc!r}"[:300],
                              "cfg": c})
                continue
            for pr in check_outputs(tmp / "out", o, ref_cl, ref_ce, [p.name for p in paths], "multiround"):
                r.bad.append({"suite": "cli", "what": pr, "cfg": c})
            if any(p.name.startswith("round-") for p in (tmp / "out").iterdir()):
                r.bad.append({"suite": "cli", "what": "multiround: intermediate round files left behind", "cfg": c})
    out_m = eval_cases("cli", "From BB Require Import Model.ObsCli.\nOpen Scope Z_scope.\n", terms, shard=100)
    for (k, m), v in zip(meta, out_m):
        v = v.strip().strip("()")
        if (k == "validate" and v != "true") or (k == "plan" and v != "-1"):
            r.bad.append({"suite": "cli", "what": f"run: {k} differs from Model/Cli.v"
                          + (f" at call {v}" if k == "plan" else ""), "opts": m})
    stats["model_cases"] = len(terms)
    r.cases = cases
    r.nontrivial = cases
    r.stats = stats
    r.samples = [{"example_options": gen_run_opts(random.Random(seed))}]
    return r


def search_c15(seed, tier, failures):
    for kind, d in failures:
        if isinstance(d, dict) and "what" in d and "Model/" not in d["what"]:
            return {"violation": d["what"], "suite_seed": seed, "tier": tier,
                    **{k: v for k, v in d.items() if k not in ("what", "suite")}}
    rr = suite_cli(seed + 1, "quick")
    for d in rr.bad:
        if "Model/" not in d["what"]:
            return {"violation": d["what"], "suite_seed": seed + 1, "tier": "quick",
                    **{k: v for k, v in d.items() if k not in ("what", "suite")}}
    return None


def replay_c15(payload):
    """re-runs the recorded option combination: the suite is deterministic in its seed, so the
    run that produced the violation is regenerated and only the violation with the recorded text
    and options counts; True = the property holds on it"""
    fi = payload.get("failing_input") or {}
    if "suite_seed" not in fi:
        return True
    rr = suite_cli(fi["suite_seed"], fi.get("tier", "quick"))
    key = json.dumps(fi.get("opts", fi.get("cfg", fi.get("case"))), sort_keys=True, default=str)
    for d in rr.bad:
        if "Model/" in d["what"]:
            continue
        if json.dumps(d.get("opts", d.get("cfg", d.get("case"))), sort_keys=True, default=str) == key:
            return False
    return True


if __name__ == "__main__":
    import sys
    import time
    t0 = time.time()
    rr = suite_cli(int(sys.argv[1]) if len(sys.argv) > 1 else 1, sys.argv[2] if len(sys.argv) > 2 else "quick")
    print(rr.name, rr.cases, rr.nontrivial, len(rr.bad), rr.stats, "%.1fs" % (time.time() - t0))
    for b in rr.bad[:6]:
        print(str(b)[:500])
