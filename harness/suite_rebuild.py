"""Suite `rebuild` (C02): a tree saved as buffer files (the files a multi-round round hands to the next:
bblean.multiround._save_bufs_and_mol_idxs) and rebuilt from them with BitBirch._fit_buffers — from the
.npy path (memory-mapped), from the loaded 2-D array and from a list of rows — with hundreds of clusters
per file (more rows than any internal block size) and clusters on both sides of 255 members.  After the
rebuild every reported cluster must have count = number of labels, sums = column sums of exactly those
members, centroid = their majority vote (oracles_hist.c02: nothing of the implementation is used for the
expected values), and rebuilding twice must give the same clusters."""
import pickle
import random
import tempfile
import warnings
from pathlib import Path

import numpy as np

from pipeline import Result
import hist
import oracles_hist

warnings.filterwarnings("ignore")


def gen_rows(rng, nf, n_small, big):
    rows = []
    for _ in range(n_small):
        r = [1 if rng.random() < 0.5 else 0 for _ in range(nf)]
        if not any(r):
            r[rng.randrange(nf)] = 1
        rows.append(r)
    base = [1 if j % 2 == 0 else 0 for j in range(nf)]
    for _ in range(big):
        r = list(base)
        if rng.random() < 0.05:
            r[rng.randrange(nf)] ^= 1
        rows.append(r)
    rng.shuffle(rows)
    return rows


def rebuild_violation(case):
    import bblean.bitbirch as bbm
    import bblean.multiround as mr
    bbm._global_merge_accept = None
    nf, rows, cfg, form = case["nf"], case["rows"], case["cfg"], case["form"]
    A = np.array(rows, dtype=np.uint8)
    bb = hist.make_bb(cfg)
    if case["packed"]:
        bb.fit(np.packbits(A, axis=1), input_is_packed=True, n_features=nf)
    else:
        bb.fit(A, input_is_packed=False)
    data = {i: r for i, r in enumerate(rows)}
    ctx = {"data": data, "nf": nf}
    v = oracles_hist.c02(bb, ctx)
    if v:
        return "after fit: " + v
    n_clusters = len(bb.get_cluster_mol_ids())
    with tempfile.TemporaryDirectory(prefix="verif_rebuild_") as tmp:
        tmp = Path(tmp)
        fps, mols = bb._bf_to_np()
        mr._save_bufs_and_mol_idxs(tmp, fps, mols, "0", 1)
        pairs = sorted(zip(sorted(tmp.glob("round-1-bufs*.npy")), sorted(tmp.glob("round-1-idxs*.pkl"))),
                       key=lambda p: p[0].name, reverse=True)        # uint16 before uint08, as the rounds do
        results = []
        for rep in range(2):
            t = hist.make_bb(cfg)
            for bp, ip in pairs:
                idxs = pickle.load(open(ip, "rb"))
                X = bp if form == "path" else np.load(bp) if form == "array" else [r for r in np.load(bp)]
                t._fit_buffers(X, reinsert_index_seqs=idxs)
            v = oracles_hist.c02(t, ctx)
            if v:
                return (f"after rebuilding from the saved buffer files ({form}; {n_clusters} clusters, files of "
                        f"{[len(np.load(bp)) for bp, _ in pairs]} rows): " + v)
            flat = sorted(i for c in t.get_cluster_mol_ids() for i in c)
            if flat != list(range(len(rows))):
                return f"after rebuilding from the saved buffer files ({form}): the clusters are not a partition"
            results.append(t.get_cluster_mol_ids())
        if results[0] != results[1]:
            return f"rebuilding twice from the same files ({form}) gives different clusters"
    return None


def gen_cases(seed, tier):
    rng = random.Random(seed + 31)
    for k in range(6 if tier == "quick" else 60):
        nf = rng.choice([11, 16, 24, 100])
        crit = rng.choice(["diameter", "radius", "tolerance-diameter"])
        cfg = {"crit": crit, "tol": 0.05 if crit.startswith("tol") else None, "thr": rng.choice([0.8, 0.9]),
               "bf": rng.choice([5, 50])}
        yield k, {"nf": nf, "cfg": cfg, "packed": rng.random() < 0.5, "form": ["path", "array", "list"][k % 3],
                  "rows": gen_rows(rng, nf, rng.choice([300, 520, 700]), rng.choice([0, 200, 262, 300]))}


def suite_rebuild(seed, tier):
    r = Result("rebuild")
    for k, case in gen_cases(seed, tier):
        r.cases += 1
        try:
            v = rebuild_violation(case)
        except Exception as e:
            v = f"rebuild could not run: {type(e).__name__}: {e}"[:240]
        if v:
            r.bad.append({"suite": "rebuild", "what": v, "case": {**case, "rows": case["rows"][:4] + ["..."]},
                          "rebuild_case": [seed, tier, k]})
    r.nontrivial = r.cases
    r.stats = {"cases": r.cases}
    r.samples = [{"forms": ["path", "array", "list"], "rows": "300-1000, hundreds of clusters per buffer file"}]
    return r


def search(seed, tier, failures):
    for kind, d in failures:
        if isinstance(d, dict) and "rebuild_case" in d:
            if replay({"failing_input": {"rebuild_case": d["rebuild_case"]}}) is False:
                return {"rebuild_case": d["rebuild_case"], "violation": d["what"],
                        "how": "harness/suite_rebuild.py: gen_cases(seed, tier) -> case k -> rebuild_violation(case)"}
    for k, case in gen_cases(seed + 1, "quick"):
        v = rebuild_violation(case)
        if v:
            return {"rebuild_case": [seed + 1, "quick", k], "violation": v,
                    "how": "harness/suite_rebuild.py: gen_cases(seed, tier) -> case k -> rebuild_violation(case)"}
    return None


def replay(payload):
    fi = payload.get("failing_input") or {}
    if "rebuild_case" not in fi:
        return None
    sd, tr, kk = fi["rebuild_case"]
    for k, case in gen_cases(sd, tr):
        if k == kk:
            try:
                return rebuild_violation(case) is None
            except Exception:
                return False
    return True


if __name__ == "__main__":
    import sys
    rr = suite_rebuild(int(sys.argv[1]) if len(sys.argv) > 1 else 1, sys.argv[2] if len(sys.argv) > 2 else "quick")
    print(rr.name, rr.cases, len(rr.bad))
    for b in rr.bad[:3]:
        print(str(b)[:500])
