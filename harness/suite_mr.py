"""Suites for the multi-round workflow (C05, C06, C09-rounds, C14):
  multiround-files  run_multiround_bitbirch (serial, cleanup on/off) vs Model/Multiround.v:
                    the WHOLE output directory, file by file
  sched             the same workflow with task orders permuted (in-process fake pool) and
                    with real process pools: finals and per-task write sets
  crash             fault injection at every file action of small configurations, then a
                    re-run in the same directory
Direct oracles of the property statements live here too (used by the search step).
"""
import itertools
import os
import pickle
import random
import shutil
import tempfile
import warnings
from pathlib import Path

import numpy as np

from common import cz, cnat, cfloat, cbool, clist, czl, cfpv, copt, eval_cases
from pipeline import Result
import hist
from suite_config import NAMES

warnings.filterwarnings("ignore")
W = {8: "W8", 16: "W16", 32: "W32", 64: "W64"}
PRE_IMPORT = "From BB Require Import Model.ObsMr.\nFrom Coq Require Import String.\nOpen Scope Z_scope.\n"


def cstr(s):
    return '"' + s + '"%string'


# ------------------------------------------------------------------ configurations
def gen_mr_case(rng, small=True, nfiles=None):
    nf = rng.choice([8, 11, 16, 24])
    many = nfiles is not None
    nfiles = rng.randint(1, 5) if nfiles is None else nfiles
    protos = None
    files = []
    for _ in range(nfiles):
        rows, protos = hist.gen_fps(rng, rng.randint(2, 4) if many else rng.randint(2, 16), nf, protos,
                                    rng.choice([0.05, 0.15, 0.3]))
        files.append(rows)
    cfg = {
        "bf": rng.choice([2, 3, 5, 50]),
        "thr": rng.choice([0.2, 0.3, 0.5, 0.65]),
        "change": rng.choice([0.0, 0.0, 0.1, -0.1]),
        "tol": rng.choice([0.05, 0.0, 0.2]),
        "init": rng.choice(hist.CRITS),
        "mid": rng.choice(hist.CRITS),
        "final": rng.choice([None, None] + hist.CRITS),
        "rounds": rng.choice([0, 1, 1, 2, 3]),
        "bin": rng.choice([1, 2, 3, 4, 10]),
        "refine": rng.choice(["full", "split", "none"]),
        "split_after": rng.random() < 0.3,
        "save_centroids": rng.random() < 0.7,
        "cleanup": rng.random() < 0.3,
        "packed": rng.random() < 0.5,
    }
    names = rng.choice(["padded", "padded", "reverse", "unpadded", "samename", "families"])
    if nfiles >= 2 and (cfg["split_after"] or cfg["refine"] != "none") and rng.random() < 0.7:
        names = "reverse"       # rounds that re-read the inputs by global index: order given != order sorted
    return {"nf": nf, "files": files, "cfg": cfg, "names": names}


PREFIX_NAMES = ["lib.npy", "lib-extra.npy", "lib.b.npy", "lib_x.npy", "lib0.npy", "lib+.npy"]


def write_inputs(case, d: Path):
    paths = []
    z = len(str(len(case["files"])))
    k = len(case["files"])
    scheme = case.get("names", "padded")
    for i, rows in enumerate(case["files"]):
        A = np.array(rows, dtype=np.uint8).reshape(len(rows), case["nf"])
        X = np.packbits(A, axis=1) if case["cfg"]["packed"] else A
        # the workflow numbers fingerprints in the order the files are GIVEN, whatever their names:
        # "reverse" and "unpadded" make that order differ from the sorted-name order
        if scheme == "samename":
            # several libraries fingerprinted separately: the same file name in different directories
            (d / f"lib-{i}").mkdir(exist_ok=True)
            nm = f"lib-{i}/fps.{str(i % 2).zfill(4)}.npy"
        elif scheme == "reverse":
            nm = f"in-{str(k - 1 - i).zfill(z)}.npy"
        elif scheme == "unpadded":
            nm = f"fps.{8 + i}.npy"
        elif scheme == "families":
            # several libraries sharded separately: <name>.<idx>.npy with the SAME shard indices in two
            # families, sorted by name (lib_a.0000, lib_a.0001, lib_b.0000, ...)
            fam, idx = divmod(i, (k + 1) // 2)
            nm = f"lib_{'ab'[fam]}.{str(idx).zfill(4)}.npy"
        elif scheme == "prefix" and k <= len(PREFIX_NAMES):
            # one stem is a prefix of the others: sorted by NAME ("lib.npy" after "lib-extra.npy") differs from
            # sorted by stem, by suffix-less name, numerically, ...
            nm = PREFIX_NAMES[i]
        else:
            nm = f"in-{str(i).zfill(z)}.npy"
        p = d / nm
        np.save(p, X)
        paths.append(p)
    return paths


def run_impl(case, out_dir: Path, in_dir: Path, mp_context=None, procs=1, paths=None, max_tasks=1):
    from bblean.multiround import run_multiround_bitbirch
    c = case["cfg"]
    if paths is None:
        paths = write_inputs(case, in_dir)
    run_multiround_bitbirch(
        paths, out_dir, n_features=case["nf"], input_is_packed=c["packed"],
        num_initial_processes=procs, num_midsection_processes=procs,
        initial_merge_criterion=c["init"], branching_factor=c["bf"], threshold=c["thr"],
        midsection_threshold_change=c["change"], tolerance=c["tol"],
        num_midsection_rounds=c["rounds"], bin_size=c["bin"],
        refinement_before_midsection=c["refine"],
        split_largest_after_each_midsection_round=c["split_after"],
        midsection_merge_criterion=c["mid"], final_merge_criterion=c["final"],
        mp_context=mp_context, save_tree=False, save_centroids=c["save_centroids"],
        cleanup=c["cleanup"], verbose=False, max_tasks_per_process=max_tasks,
        **({"max_fps": c["max_fps"]} if c.get("max_fps") is not None else {}))
    return paths


def read_dir(out_dir: Path, nf):
    """directory -> sorted list of (name, parsed content)"""
    ents = []
    for p in sorted(out_dir.iterdir(), key=lambda q: q.name):
        n = p.name
        try:
            _read_one(p, n, nf, ents)
        except Exception:           # a file cut short by a crash
            ents.append((n, ("partial",)))
    return ents


def _read_one(p, n, nf, ents):
    if True:
        if n.startswith("round-") and n.endswith(".npy"):
            a = np.load(p)
            ents.append((n, ("bufs", int(a.dtype.itemsize * 8), [([int(v) for v in r[:-1]], int(r[-1])) for r in a])))
        elif n.startswith("round-") and n.endswith(".pkl"):
            ents.append((n, ("idxs", [[int(i) for i in l] for l in pickle.load(open(p, "rb"))])))
        elif n == "clusters.pkl":
            ents.append((n, ("clusters", [[int(i) for i in l] for l in pickle.load(open(p, "rb"))])))
        elif n == "cluster-centroids-packed.pkl":
            cs = pickle.load(open(p, "rb"))
            ents.append((n, ("centroids", [np.unpackbits(c, count=nf).tolist() for c in cs])))
        else:
            ents.append((n, ("other",)))


def content_term(c):
    if c[0] == "bufs":
        return f"(CBufs {W[c[1]]} {clist(c[2], lambda r: '(' + czl(r[0]) + ', ' + cz(r[1]) + ')')})"
    if c[0] == "idxs":
        return f"(CIdxs {clist(c[1], czl)})"
    if c[0] == "clusters":
        return f"(CClusters {clist(c[1], czl)})"
    if c[0] == "centroids":
        return f"(CCentroids {clist(c[1], cfpv)})"
    return "COther"


def dir_term(ents):
    return clist(ents, lambda e: f"({cstr(e[0])}, {content_term(e[1])})")


def cfg_term(c):
    ref = {"full": "RFull", "split": "RSplit", "none": "RNone"}[c["refine"]]
    fin = "None" if c["final"] is None else f"(Some {NAMES[c['final']]})"
    return (f"(mkMr {cz(c['bf'])} {cfloat(c['thr'])} {cfloat(c['change'])} {cfloat(c['tol'])} "
            f"{NAMES[c['init']]} {NAMES[c['mid']]} {fin} {cnat(c['rounds'])} {cnat(c['bin'])} {ref} "
            f"{cbool(c['split_after'])} {cbool(c['save_centroids'])} {cbool(c['cleanup'])})")


def files_term(case):
    return clist(case["files"], lambda f: clist(f, cfpv))


# ------------------------------------------------------------------ direct oracle (C05)
def c05_violation(case, ents):
    """the C05 statement on a finished output directory (cleanup=False recommended)"""
    d = dict(ents)
    G = [r for f in case["files"] for r in f]
    N = len(G)
    if "clusters.pkl" not in d:
        return "no clusters.pkl was written"
    cl = d["clusters.pkl"][1]
    flat = sorted(i for c in cl for i in c)
    if flat != list(range(N)):
        return f"final clusters do not partition 0..{N - 1}: {len(flat)} labels, {len(set(flat))} distinct"

    def maj(ids):
        n = len(ids)
        s = np.sum([G[i] for i in ids], axis=0)
        return [int(2 * v >= n) for v in s] if n > 1 else [int(v) for v in s]
    if "cluster-centroids-packed.pkl" in d:
        cs = d["cluster-centroids-packed.pkl"][1]
        if len(cs) != len(cl):
            return "centroid list and cluster list have different lengths"
        for k, (c, ids) in enumerate(zip(cs, cl)):
            if c != maj(ids):
                return f"saved centroid {k} is not the majority-vote centroid of cluster {k} (members {ids[:8]})"
    # intermediate pairs
    for n, c in ents:
        if c[0] == "bufs":
            m = n.replace("-bufs", "-idxs").replace(".npy", ".pkl")
            if m not in d:
                return f"buffer file {n} has no index file"
            ids = d[m][1]
            if len(ids) != len(c[2]):
                return f"{n} and {m} have different lengths"
            for k, ((ls, cnt), l) in enumerate(zip(c[2], ids)):
                if cnt != len(l):
                    return f"{n} row {k}: count {cnt} != {len(l)} member labels"
                true = [int(v) for v in np.sum([G[i] for i in l], axis=0)] if l else [0] * len(ls)
                if ls != true:
                    return f"{n} row {k}: the buffer is not the summary of its own member list {l[:8]}"
    return None


def c09_rounds_violation(ents, split_after=True):
    """fingerprints grouped together by one round stay together in the next round (and in the
    final clusters) unless their cluster is the one a task deliberately splits: then, and only
    when splitting after midsection rounds is on, ALL its members are singletons of the next round"""
    rounds = {}
    for n, c in ents:
        if c[0] == "idxs":
            r = int(n.split("-")[1])
            rounds.setdefault(r, []).extend(c[1])
    d = dict(ents)
    order = sorted(rounds)
    seq = [(f"round {r}", rounds[r]) for r in order]
    if "clusters.pkl" in d:
        seq.append(("final", d["clusters.pkl"][1]))
    for (na, a), (nb, b) in zip(seq[:-1], seq[1:]):
        where = {i: k for k, c in enumerate(b) for i in c}
        singles = {c[0] for c in b if len(c) == 1}
        for c in a:
            lost = [i for i in c if i not in where]
            if lost:
                return (f"{len(lost)} members of a cluster of {na} ({len(c)} members, e.g. {lost[:6]}) are in no "
                        f"cluster of {nb}: the cluster did not re-enter the next round")
            if len({where.get(i) for i in c}) > 1:
                if nb != "final" and split_after and all(i in singles for i in c):
                    continue
                return (f"a cluster of {na} ({len(c)} members, e.g. {c[:6]}) is separated in {nb} although it "
                        "is not a cluster that was deliberately split")
    return None


def c03_mr_violation(case, ents):
    """C03 on the final clusters of a workflow: every cluster of two or more members meets the bound of SOME
    (criterion, threshold) pair the run ever had in force — thresholds: the initial one and the shifted one;
    criteria: initial, midsection, final.  Statistics are computed exactly from the members' input rows."""
    import oracles_hist
    d = dict(ents)
    if "clusters.pkl" not in d:
        return None
    c = case["cfg"]
    crits = {c["init"], c["mid"], c["final"] or c["mid"]}
    if crits == {"never-merge"}:
        fam = set()
    else:
        fam = {"radius" if "radius" in k else "diameter" for k in crits if k != "never-merge"}
    rows = [r for f in case["files"] for r in f]
    tmin = min(c["thr"], c["thr"] + c["change"])
    for cl in d["clusters.pkl"][1]:
        if len(cl) < 2:
            continue
        if not fam:
            return f"never-merge everywhere but a cluster of {len(cl)} members is reported: {cl[:8]}"
        ks = [sum(rows[i][j] for i in cl) for j in range(case["nf"])]
        a = float(oracles_hist.exact_isim(ks, len(cl)))
        b = float(oracles_hist.exact_rcompl(ks, len(cl)))
        ok = ("diameter" in fam and a >= tmin - 1e-9) or ("radius" in fam and b >= tmin - 1e-9)
        if not ok:
            return (f"a final cluster of {len(cl)} members (e.g. {cl[:6]}) has iSIM {a:.6f} and radius complement "
                    f"{b:.6f}, below every threshold the run ever had in force (min = {tmin!r}; criteria {sorted(crits)})")
    return None


def suite_mr_bound(seed, tier):
    """serial multi-round workflows with several input files and a (possibly negative) threshold shift;
    direct C03 oracle on the final clusters"""
    rng = random.Random(seed + 15)
    r = Result("multiround-bound")
    for _k in range(20 if tier == "quick" else 300):
        case = gen_mr_case(rng, nfiles=rng.choice([3, 4, 6]))
        case["cfg"]["change"] = rng.choice([-0.1, -0.1, -0.05, 0.0, 0.1])
        case["cfg"]["thr"] = rng.choice([0.4, 0.5, 0.65])
        case["cfg"]["cleanup"] = False
        if rng.random() < 0.6:
            case["cfg"]["refine"] = "full"      # the round that re-tunes its tree inside every task
        # more rows per file than the 'many files' default: clusters of several members in every file
        protos = None
        case["files"] = []
        for _f in range(rng.choice([3, 4, 6])):
            rows_, protos = hist.gen_fps(rng, rng.randint(8, 20), case["nf"], protos, rng.choice([0.1, 0.2, 0.3]))
            case["files"].append(rows_)
        r.cases += 1
        with tempfile.TemporaryDirectory(prefix="verif_mrb_") as tmp:
            tmp = Path(tmp)
            (tmp / "in").mkdir()
            (tmp / "out").mkdir()
            try:
                run_impl(case, tmp / "out", tmp / "in")
                v = c03_mr_violation(case, read_dir(tmp / "out", case["nf"]))
            except Exception as e:
                v = f"the workflow failed: {type(e).__name__}: {e}"[:200]
        if v:
            r.bad.append({"suite": "multiround-bound", "what": v, "case": case})
    r.nontrivial = r.cases
    r.stats = {"cases": r.cases}
    r.samples = [{"threshold_changes": [-0.1, -0.05, 0.0, 0.1], "files": "3-6"}]
    return r


# ------------------------------------------------------------------ suite: whole directory
def suite_mr_files(seed, tier):
    rng = random.Random(seed)
    r = Result("multiround-files")
    n_cases = 25 if tier == "quick" else 500
    terms, meta = [], []
    stats = {"refine": {}, "rounds": {}, "failed_runs": 0, "unpacked": 0}
    for _k in range(n_cases):
        # one case in eight has 11-13 small input files and bin size 1 or 2: task and batch labels
        # then need two digits in one round and one digit in the next
        case = gen_mr_case(rng, nfiles=rng.choice([11, 12, 13])) if _k % 8 == 5 else gen_mr_case(rng)
        if _k % 8 == 5:
            case["cfg"]["bin"] = rng.choice([1, 2])
            case["cfg"]["rounds"] = rng.choice([1, 2])
        if _k % 25 == 3:
            # a cluster of EXACTLY 255 (the largest count a uint08 buffer file holds) or 256 equal rows, on
            # bits of its own: it travels through every round as a buffer and is never merged with anything
            nf = case["nf"]
            own = [1 if j % 3 == 0 else 0 for j in range(nf)]
            size = 255 if (_k // 25) % 2 == 0 else 256
            fam = [list(own) for _ in range(size)]
            f0 = rng.randrange(len(case["files"]))
            case["files"][f0] = fam + [r_ for r_ in case["files"][f0]
                                        if sum(a_ & b_ for a_, b_ in zip(r_, own)) == 0 and any(r_)]
            for fi in range(len(case["files"])):
                if fi != f0:
                    case["files"][fi] = [r_ for r_ in case["files"][fi]
                                         if sum(a_ & b_ for a_, b_ in zip(r_, own)) == 0 and any(r_)] or [[1 - x for x in own]]
            # (threshold: a single foreign row would still be averaged into 255 equal ones below 0.9922)
            case["cfg"].update(thr=0.999, init="diameter", mid="diameter", final=None, save_centroids=True,
                               refine="none", split_after=False)
        with tempfile.TemporaryDirectory(prefix="verif_mr_") as tmp:
            tmp = Path(tmp)
            (tmp / "in").mkdir()
            (tmp / "out").mkdir()
            try:
                run_impl(case, tmp / "out", tmp / "in")
                ents = read_dir(tmp / "out", case["nf"])
            except Exception as e:
                ents = None
                case["error"] = f"{type(e).__name__}: {e}"[:200]
                stats["failed_runs"] += 1
        c = case["cfg"]
        stats["refine"][c["refine"]] = stats["refine"].get(c["refine"], 0) + 1
        stats["rounds"][c["rounds"]] = stats["rounds"].get(c["rounds"], 0) + 1
        stats["unpacked"] += 0 if c["packed"] else 1
        if ents is not None:
            v = c05_violation(case, ents) or c09_rounds_violation(ents, c["split_after"])
            if v:
                r.bad.append({"suite": "multiround-files", "what": v, "case": case})
        else:
            r.bad.append({"suite": "multiround-files", "what": "the workflow failed: " + case.get("error", ""),
                          "case": case})
        exp = "None" if ents is None else f"(Some {dir_term(ents)})"
        terms.append(f"check_mr fexp {cfg_term(c)} {files_term(case)} [] {exp}")
        meta.append(case)
    pre = hist.exp_preamble(120).replace("From BB Require Import Model.Obs.",
                                         "From BB Require Import Model.Obs.\n" + PRE_IMPORT.strip())
    try:
        out = eval_cases("mrfiles", pre, terms, shard=25)
    except RuntimeError as e:       # the model does not build: keep the results of the direct oracles
        r.error = f"model evaluation failed: {str(e)[-600:]}"
        out = ["true"] * len(terms)
    r.cases = len(terms)
    r.nontrivial = len({str(m) for m in meta if len(m["files"]) >= 2})
    for m, o in zip(meta, out):
        if o.strip() != "true":
            r.bad.append({"suite": "multiround-files", "what": "directory differs from Model/Multiround.v",
                          "case": m})
    r.stats = stats
    r.samples = [{"cfg": meta[0]["cfg"], "file_sizes": [len(f) for f in meta[0]["files"]]}]
    return r


# ------------------------------------------------------------------ suite: schedules (C06)
class FakePool:
    """in-process stand-in for mp_context.Pool whose map runs the tasks in a chosen order"""
    order_fn = None

    def __init__(self, processes=None, maxtasksperchild=None):
        pass

    def __enter__(self):
        return self

    def __exit__(self, *a):
        return False

    def map(self, fn, items):
        items = list(items)
        idx = list(range(len(items)))
        FakePool.order_fn(idx)
        import copy
        for i in idx:
            copy.deepcopy(fn)(items[i])       # a worker receives a pickled copy of the callable
        return [None] * len(items)


class FakeCtx:
    Pool = FakePool


def finals(ents):
    d = dict(ents)
    return d.get("clusters.pkl"), d.get("cluster-centroids-packed.pkl")


def hash_seed_results(case_seed, hash_seeds):
    """one workflow whose first round holds two dtype groups per file (two families of 256+ rows, a looser
    family around the second one, noise), run serially in fresh interpreters under the given PYTHONHASHSEED
    values (a forkserver / spawn worker draws its own unless the variable is exported).  Returns
    (case, {hash seed: printed final files or 'failed: ...'})"""
    import json
    import subprocess
    import sys
    hrng = random.Random(case_seed)
    nf = 64

    def fam(base, n, flips):
        out = []
        for _ in range(n):
            row = list(base)
            for jj in hrng.sample(range(nf), flips):
                row[jj] ^= 1
            out.append(row)
        return out
    ba = [1 if hrng.random() < 0.35 else 0 for _ in range(nf)]
    bb = [1 if hrng.random() < 0.35 else 0 for _ in range(nf)]
    hfiles = []
    for _f in range(2):
        # whether the second family's summary re-enters before or after the loose rows decides what it absorbs
        rows = fam(ba, hrng.choice([300, 320]), 2) + fam(bb, hrng.choice([270, 280]), 2) + \
            fam(bb, 60, hrng.choice([8, 12, 16])) + [[1 if hrng.random() < 0.35 else 0 for _ in range(nf)] for _ in range(30)]
        hrng.shuffle(rows)
        hfiles.append(rows)
    hcase = {"nf": nf, "files": hfiles, "names": "padded",
             "cfg": {"bf": 50, "thr": 0.65, "change": 0.0, "tol": 0.05, "init": "diameter", "mid": "diameter",
                     "final": None, "rounds": 1, "bin": 2, "refine": "full", "split_after": False,
                     "save_centroids": True, "cleanup": False, "packed": True}}
    code = ("import sys,json,warnings;warnings.filterwarnings('ignore');sys.path.insert(0,%r);import suite_mr;"
            "from pathlib import Path;c=json.load(open(sys.argv[1]));d=Path(sys.argv[2]);(d/'in').mkdir();(d/'out').mkdir();"
            "suite_mr.run_impl(c,d/'out',d/'in');print(json.dumps(suite_mr.finals(suite_mr.read_dir(d/'out',c['nf'])),default=str))"
            % str(Path(__file__).parent))
    outs = {}
    with tempfile.TemporaryDirectory(prefix="verif_hseed_") as tmp:
        tmp = Path(tmp)
        (tmp / "case.json").write_text(json.dumps(hcase))
        for hs in hash_seeds:
            (tmp / f"h{hs}").mkdir()
            p = subprocess.run([sys.executable, "-c", code, str(tmp / "case.json"), str(tmp / f"h{hs}")],
                               capture_output=True, text=True, env=dict(os.environ, PYTHONHASHSEED=hs))
            outs[hs] = p.stdout.strip().splitlines()[-1] if p.returncode == 0 and p.stdout.strip() else f"failed: {p.stderr[-200:]}"
    return hcase, outs


def suite_sched(seed, tier):
    import bblean.multiround as mr
    import multiprocessing as mp
    rng = random.Random(seed + 2)
    r = Result("sched")
    n_cfg = 8 if tier == "quick" else 80
    n_orders = 4 if tier == "quick" else 15
    writes_ok = True
    evals = 0
    for k in range(n_cfg):
        # one configuration in four has 11-13 input files and a bin size of 2-4: the number of
        # batches of a midsection round then exceeds (and is no multiple of) some process counts
        many = (k % 4 == 1)
        case = gen_mr_case(rng, nfiles=rng.choice([11, 12, 13])) if many else gen_mr_case(rng)
        while len(case["files"]) < 3:
            case = gen_mr_case(rng)
        case["cfg"]["cleanup"] = False
        case["cfg"]["change"] = rng.choice([0.0, 0.1, -0.05])
        if many:
            case["cfg"]["bin"] = rng.choice([2, 3, 4])
            case["cfg"]["rounds"] = rng.choice([1, 2])
        # one configuration in four re-tunes the estimator inside every task (a tolerance criterion kept from
        # the initial fit to the refinement, a non-default tolerance, the 'full' refinement): whatever a task
        # leaves behind in its process must not reach the next task
        retune = (k % 4 == 2)
        if retune:
            tc = rng.choice(["tolerance-diameter", "tolerance-radius", "tolerance-legacy"])
            case["cfg"].update(init=tc, mid=tc, tol=rng.choice([0.0, 0.2, 0.5]), refine="full",
                               thr=rng.choice([0.3, 0.5]))
        with tempfile.TemporaryDirectory(prefix="verif_sched_") as tmp:
            tmp = Path(tmp)
            (tmp / "in").mkdir()
            paths = write_inputs(case, tmp / "in")
            (tmp / "ser").mkdir()
            try:
                run_impl(case, tmp / "ser", tmp / "in", paths=paths)
            except Exception:
                continue
            ref = read_dir(tmp / "ser", case["nf"])
            # per-task write sets: wrap _save_bufs_and_mol_idxs
            for o in range(n_orders):
                od = tmp / f"o{o}"
                od.mkdir()
                kind = ["reversed", "rotated", "random", "random"][o % 4]

                def order_fn(idx, kind=kind):
                    if kind == "reversed":
                        idx.reverse()
                    elif kind == "rotated":
                        idx.append(idx.pop(0))
                    else:
                        rng.shuffle(idx)
                FakePool.order_fn = staticmethod(order_fn)
                log = []
                real_save = mr._save_bufs_and_mol_idxs

                def spy(out_dir, fps_bfs, mols_bfs, label, round_idx, _real=real_save):
                    log.append((round_idx, label, sorted(fps_bfs.keys())))
                    return _real(out_dir, fps_bfs, mols_bfs, label, round_idx)
                mr._save_bufs_and_mol_idxs = spy
                try:
                    run_impl(case, od, tmp / "in", mp_context=FakeCtx, procs=[3, 2, 4, 5][o % 4], paths=paths)
                finally:
                    mr._save_bufs_and_mol_idxs = real_save
                evals += 1
                got = read_dir(od, case["nf"])
                if got != ref:
                    r.bad.append({"suite": "sched", "what": f"task order '{kind}' gives a different output "
                                  "directory than the serial execution", "case": case})
                    break
                keys = [(rd, lab, dt) for rd, lab, dts in log for dt in dts]
                if len(keys) != len(set(keys)):
                    r.bad.append({"suite": "sched", "what": "two tasks of a round wrote the same intermediate file",
                                  "case": case})
                    break
            # real pools
            if k < (1 if tier == "quick" else 10) or retune:
                for procs, method, mt in ([(3, "forkserver", 1)] if (retune and k >= (1 if tier == "quick" else 10)) else
                                          [(2, "forkserver", 1), (5, "fork", 3)] if tier == "quick" else
                                          [(2, "forkserver", 1), (3, "fork", 2), (5, "forkserver", 4), (10, "fork", 1),
                                           (16, "forkserver", 3), (1, "fork", 5)]):
                    od = tmp / f"p{procs}{method}"
                    od.mkdir()
                    run_impl(case, od, tmp / "in", mp_context=mp.get_context(method), procs=procs, paths=paths,
                             max_tasks=mt)
                    evals += 1
                    if finals(read_dir(od, case["nf"])) != finals(ref):
                        r.bad.append({"suite": "sched", "what": f"{procs} processes ({method}, {mt} tasks per "
                                      "process) give different final clusters than the serial execution",
                                      "case": case})
    # processes with DIFFERENT hash seeds: see hash_seed_results
    hseeds = ["0", "1", "2"] if tier == "quick" else ["0", "1", "2", "3", "5", "7", "11"]
    hcase, outs = hash_seed_results(seed + 77, hseeds)
    evals += len(outs)
    if any(v.startswith("failed") for v in outs.values()):
        r.bad.append({"suite": "sched", "what": "the workflow could not be run in a fresh interpreter: "
                      + next(v for v in outs.values() if v.startswith("failed"))[:200],
                      "hash_seed_case": seed + 77, "hash_seeds": hseeds})
    elif len(set(outs.values())) > 1:
        r.bad.append({"suite": "sched", "what": "the final clusters / centroids depend on the hash seed of the process "
                      f"that runs the tasks (PYTHONHASHSEED {sorted(outs)}: {len(set(outs.values()))} different results)",
                      "case_summary": {**hcase, "files": [[list(x) for x in f[:3]] + ["... %d rows" % len(f)] for f in hcase["files"]]},
                      "hash_seed_case": seed + 77, "hash_seeds": hseeds})
    r.cases = evals
    r.nontrivial = evals
    r.stats = {"configurations": n_cfg, "orders_per_configuration": n_orders, "hash_seeds": sorted(outs)}
    r.samples = [{"orders": ["reversed", "rotated", "random"],
                  "real_pools": "processes/start method/max tasks per process: 2/forkserver/1, 5/fork/3 (quick)"}]
    return r


# ------------------------------------------------------------------ suite: crash / re-run (C14)
class _Crash(Exception):
    pass


def count_and_crash(case, paths, out_dir, crash_at):
    """run the workflow, raising at the crash_at-th file action (open for writing, pickle.dump,
    Path.replace) of bblean.multiround; returns (number of actions seen, crashed?)"""
    import bblean.multiround as mr
    import builtins
    n = {"k": 0}

    def tick():
        n["k"] += 1
        if crash_at is not None and n["k"] == crash_at:
            raise _Crash()

    real_open = builtins.open

    def open_spy(p, mode="r", *a, **kw):
        if any(c in mode for c in "wax"):
            tick()
        return real_open(p, mode, *a, **kw)

    class PickleProxy:
        def __getattr__(self, k):
            return getattr(pickle, k)

        def dump(self, obj, f, *a, **kw):
            tick()
            return pickle.dump(obj, f, *a, **kw)
    real_replace = Path.replace

    def replace_spy(self, target):
        tick()
        return real_replace(self, target)
    saved = (mr.__dict__.get("open"), mr.pickle)
    mr.open = open_spy
    mr.pickle = PickleProxy()
    Path.replace = replace_spy
    try:
        run_impl(case, out_dir, None, paths=paths)
        crashed = False
    except _Crash:
        crashed = True
    finally:
        if saved[0] is None:
            del mr.open
        else:
            mr.open = saved[0]
        mr.pickle = saved[1]
        Path.replace = real_replace
    return n["k"], crashed


def suite_crash(seed, tier):
    rng = random.Random(seed + 4)
    r = Result("crash")
    n_cfg = 3 if tier == "quick" else 25
    evals = 0
    terms, meta = [], []
    for k in range(n_cfg):
        # one configuration in three has 11-13 input files: task labels are zero-padded to the
        # number of files, so a re-run with fewer files changes the label width
        many = (k % 3 == 1)
        # the output directory's own name contains glob metacharacters in two configurations out of three
        # (a purge / cleanup that globs on the joined path string then matches nothing, or something else)
        suffix = ["", "[v2]", " x*y?"][k % 3]
        case = gen_mr_case(rng, nfiles=rng.choice([11, 12, 13])) if many else gen_mr_case(rng)
        while len(case["files"]) < 2:
            case = gen_mr_case(rng)
        case["cfg"]["cleanup"] = rng.random() < 0.5
        if many:
            case["cfg"]["rounds"] = rng.choice([0, 1])
        with tempfile.TemporaryDirectory(prefix="verif_crash_") as tmp:
            tmp = Path(tmp)
            (tmp / "in").mkdir()
            paths = write_inputs(case, tmp / "in")
            (tmp / "fresh").mkdir()
            try:
                total, _ = count_and_crash(case, paths, tmp / "fresh", None)
            except Exception:
                continue
            fresh = finals(read_dir(tmp / "fresh", case["nf"]))
            # re-run configurations: same / changed threshold / fewer files
            variants = []
            same = case
            chg = {**case, "cfg": {**case["cfg"], "thr": 0.9 if case["cfg"]["thr"] < 0.6 else 0.2}}
            nkeep = 3 if many else len(case["files"]) - 1
            fewer = {**case, "files": case["files"][-nkeep:] if not many else case["files"][:nkeep]}
            fpaths = paths[-nkeep:] if not many else paths[:nkeep]
            nfl = len(case["files"])
            keep_idx = {"same": list(range(nfl)), "threshold": list(range(nfl)),
                        "fewer-files": list(range(nkeep)) if many else list(range(nfl - nkeep, nfl))}
            for name, v, vp in (("same", same, paths), ("threshold", chg, paths), ("fewer-files", fewer, fpaths)):
                (tmp / f"fresh-{name}").mkdir()
                run_impl(v, tmp / f"fresh-{name}", None, paths=vp)
                variants.append((name, v, vp, finals(read_dir(tmp / f"fresh-{name}", case["nf"]))))
            points = list(range(1, total + 1))
            if tier == "quick" and len(points) > 14:
                # the writes of the first round (one .npy then one .pkl per task) are all kept
                head = points[:3 * len(case["files"])] if many else []
                points = sorted(set(head) | set(points[-6:]) | set(rng.sample(points, 14)))
            for cp in points:
                d = tmp / f"c{cp}{suffix}"
                d.mkdir()
                # leftovers of an unrelated earlier run + the crash
                _, crashed = count_and_crash({**case, "cfg": {**case["cfg"], "cleanup": False}}, paths, d, cp)
                evals += 1
                after = read_dir(d, case["nf"])
                names = [n for n, _ in after]
                if crashed and "clusters.pkl" in names:
                    r.bad.append({"suite": "crash", "what": f"a run that failed at file action {cp} of {total} "
                                  "left a final cluster file (clusters.pkl) behind", "case": case,
                                  "crash_at": cp, "rerun": "none", "rerun_files": list(range(len(case["files"]))), "dir_suffix": suffix})
                    break
                name, v, vp, ref = variants[2] if (many and cp <= 3 * len(case["files"])) else variants[cp % 3]
                # files the workflow does not own must survive the re-run untouched
                (d / "zz-foreign.txt").write_text("x")
                (d / "a-foreign.npy").write_text("x")
                before = read_dir(d, case["nf"])
                try:
                    run_impl(v, d, None, paths=vp)
                except Exception as e:
                    r.bad.append({"suite": "crash", "what": f"crash at file action {cp} followed by a re-run "
                                  f"({name}) in the same directory fails ({type(e).__name__}: {str(e)[:120]}) "
                                  "although the same run succeeds in a fresh directory",
                                  "case": case, "crash_at": cp, "rerun": name, "rerun_files": keep_idx[name], "dir_suffix": suffix})
                    break
                got = read_dir(d, case["nf"])
                if len(terms) < (12 if tier == "quick" else 150) and (cp % 2 == 0 or tier != "quick"):
                    terms.append(f"check_mr fexp {cfg_term(v['cfg'])} {files_term(v)} {dir_term(before)} "
                                 f"(Some {dir_term(got)})")
                    meta.append({"case": v, "crash_at": cp, "rerun": name, "dir_suffix": suffix,
                                 "leftovers": [n for n, _ in before]})
                if not all(e in got for e in before if e[0] in ("zz-foreign.txt", "a-foreign.npy")):
                    r.bad.append({"suite": "crash", "what": "the re-run removed or changed a file it does not own",
                                  "case": case, "crash_at": cp, "rerun": name, "rerun_files": keep_idx[name], "dir_suffix": suffix})
                    break
                if finals(got) != ref:
                    r.bad.append({"suite": "crash", "what": f"crash at file action {cp} followed by a re-run "
                                  f"({name}) in the same directory gives other final clusters than a fresh directory",
                                  "case": case, "crash_at": cp, "rerun": name, "rerun_files": keep_idx[name], "dir_suffix": suffix})
                    break
                if v["cfg"]["cleanup"] and any(n.startswith("round-") for n, _ in got):
                    r.bad.append({"suite": "crash", "what": "cleanup left intermediate round files", "case": case,
                                  "crash_at": cp, "rerun": name, "rerun_files": keep_idx[name], "dir_suffix": suffix,
                                  "check_cleanup": True})
                    break
                shutil.rmtree(d)
    pre = hist.exp_preamble(120).replace("From BB Require Import Model.Obs.",
                                         "From BB Require Import Model.Obs.\n" + PRE_IMPORT.strip())
    try:
        out = eval_cases("mrcrash", pre, terms, shard=6)
    except RuntimeError as e:
        r.error = f"model evaluation failed: {str(e)[-600:]}"
        out = ["true"] * len(terms)
    for m, o in zip(meta, out):
        if o.strip() != "true":
            r.bad.append({"suite": "crash", "what": "the directory after crash + re-run differs from "
                          "Model/Multiround.v run on the crash leftovers", **m})
    r.cases = evals
    r.nontrivial = evals
    r.stats = {"configurations": n_cfg, "model_reruns_from_leftovers": len(terms),
               "leftover_dir_sizes": sorted({len(m["leftovers"]) for m in meta})}
    r.samples = [{"rerun_kinds": ["same", "threshold", "fewer-files"]}] + \
                [{"crash_at": m["crash_at"], "rerun": m["rerun"], "leftovers": m["leftovers"][:8]} for m in meta[:1]]
    return r


# ------------------------------------------------------------------ suite: debug cap / used directories (direct only)
def mr_options_violation(case, dirty_first=None):
    """direct oracles only (no model term).
    (1) case["cfg"]["max_fps"] set: only the first max_fps rows of every input file are clustered (the
        indices keep the files' full ranges, so the partition clause of C05 does not apply), but the rounds
        must still only coarsen: a group of round r re-enters round r+1 as a unit (C09).
    (2) dirty_first given: a first run (that configuration) with cleanup off leaves its round files behind,
        then the run proper is made in the SAME directory, again with cleanup off: partition, exact
        centroids, hand-over (C05) and coarsening (C09) as from an empty directory."""
    with tempfile.TemporaryDirectory(prefix="verif_mropt_") as tmp:
        tmp = Path(tmp)
        (tmp / "in").mkdir()
        (tmp / "out").mkdir()
        if dirty_first is not None:
            (tmp / "in0").mkdir()
            try:
                run_impl({**dirty_first, "cfg": {**dirty_first["cfg"], "cleanup": False}}, tmp / "out", tmp / "in0")
            except Exception:
                return None
        try:
            run_impl({**case, "cfg": {**case["cfg"], "cleanup": False}}, tmp / "out", tmp / "in")
        except Exception as e:
            if dirty_first is not None:
                return f"the run in a directory used before (cleanup off both times) fails: {type(e).__name__}: {e}"[:240]
            return None
        ents = read_dir(tmp / "out", case["nf"])
    if case["cfg"].get("max_fps") is not None:
        return c09_rounds_violation(ents, case["cfg"]["split_after"])
    return c05_violation(case, ents) or c09_rounds_violation(ents, case["cfg"]["split_after"])


def gen_mr_options(seed, n):
    rng = random.Random(seed + 23)
    out = []
    for k in range(n):
        case = gen_mr_case(rng)
        while len(case["files"]) < 2:
            case = gen_mr_case(rng)
        if k % 2 == 0:
            # debug cap below the number of clusters a merging round writes into one file
            case["cfg"].update(rounds=rng.choice([1, 2, 3]), bin=rng.choice([2, 3, 10]),
                               max_fps=rng.choice([3, 5, 8]), thr=rng.choice([0.65, 0.8]), refine="none",
                               split_after=False)
            for f in case["files"]:
                while len(f) < 12:
                    f.append([rng.randint(0, 1) for _ in range(case["nf"])])
            out.append((case, None))
        else:
            first = gen_mr_case(rng, nfiles=len(case["files"]) + rng.choice([1, 2]))
            first["nf"] = case["nf"]
            first["files"] = [[[rng.randint(0, 1) for _ in range(case["nf"])] for _ in range(rng.randint(3, 9))]
                              for _ in first["files"]]
            first["cfg"] = {**case["cfg"], "rounds": rng.choice([1, 2])}
            first["names"] = case.get("names", "padded")
            out.append((case, first))
    return out


def suite_mr_options(seed, tier):
    r = Result("multiround-options")
    pairs = gen_mr_options(seed, 8 if tier == "quick" else 120)
    for case, first in pairs:
        v = mr_options_violation(case, first)
        if v:
            r.bad.append({"suite": "multiround-options", "what": v, "case": case, "dirty_first": first})
    r.cases = len(pairs)
    r.nontrivial = len(pairs)
    r.stats = {"capped": sum(1 for c, f in pairs if f is None), "used_directory": sum(1 for c, f in pairs if f is not None)}
    r.samples = [{"cfg": pairs[0][0]["cfg"]}]
    return r


# ------------------------------------------------------------------ suite: failures inside pool workers (C14)
def worker_failure_violation(case, scenario, procs, ctx_name):
    """run the parallel workflow with a failure that happens INSIDE a worker process and say what is
    wrong afterwards (None if nothing): the run must fail, no final file may exist, and a repaired re-run
    in the same directory must equal a fresh one.
      scenario ("truncated-input", j): input file j is cut short on disk (valid header, half the rows)
      scenario ("save-fails", r):      writing a round-r intermediate file fails (fork context: the patched
                                       function is inherited by the workers)"""
    import multiprocessing
    import bblean.multiround as mr
    with tempfile.TemporaryDirectory(prefix="verif_wfail_") as tmp:
        tmp = Path(tmp)
        (tmp / "in").mkdir()
        paths = write_inputs(case, tmp / "in")
        (tmp / "fresh").mkdir()
        run_impl(case, tmp / "fresh", None, paths=paths)
        ref = finals(read_dir(tmp / "fresh", case["nf"]))
        out = tmp / "out"
        out.mkdir()
        ctx = multiprocessing.get_context(ctx_name)
        kind, arg = scenario
        saved = None
        whole = None
        if kind == "truncated-input":
            whole = paths[arg].read_bytes()
            hdr = whole.index(b"\n") + 1
            paths[arg].write_bytes(whole[:hdr + (len(whole) - hdr) // 2])
        else:
            saved = mr._numpy_streaming_save

            def failing(bufs, path, *a, **kw):
                if Path(path).name.startswith(f"round-{arg}-"):
                    raise OSError(28, "No space left on device")
                return saved(bufs, path, *a, **kw)
            mr._numpy_streaming_save = failing
        failed = False
        try:
            run_impl({**case, "cfg": {**case["cfg"], "cleanup": False}}, out, None, mp_context=ctx, procs=procs,
                     paths=paths)
        except Exception:
            failed = True
        finally:
            if saved is not None:
                mr._numpy_streaming_save = saved
            if whole is not None:
                paths[arg].write_bytes(whole)
        names = sorted(p.name for p in out.iterdir())
        if not failed:
            return (f"a worker process failed ({kind} {arg}) but the run returned normally; the directory holds "
                    f"{[n for n in names if not n.startswith('round-')]}")
        if any(n in names for n in ("clusters.pkl", "cluster-centroids-packed.pkl")):
            return f"a run that failed inside a worker ({kind} {arg}) left a final cluster file behind"
        try:
            run_impl(case, out, None, mp_context=ctx, procs=procs, paths=paths)
        except Exception as e:
            return f"the re-run after a worker failure ({kind} {arg}) fails: {type(e).__name__}: {e}"[:240]
        if finals(read_dir(out, case["nf"])) != ref:
            return f"the re-run after a worker failure ({kind} {arg}) gives other final clusters than a fresh directory"
    return None


def suite_worker_crash(seed, tier):
    rng = random.Random(seed + 14)
    r = Result("worker-crash")
    n_cfg = 2 if tier == "quick" else 12
    for k in range(n_cfg):
        case = gen_mr_case(rng, nfiles=rng.choice([3, 4, 5]))
        case["cfg"]["rounds"] = max(1, case["cfg"]["rounds"])
        case["cfg"]["bin"] = 2
        procs = rng.choice([2, 3])
        scen = [("truncated-input", rng.randrange(len(case["files"]))), ("save-fails", 2)]
        if tier != "quick":
            scen.append(("save-fails", 1))
        for sc in scen:
            ctx_name = "fork" if sc[0] == "save-fails" or tier == "quick" else rng.choice(["fork", "forkserver"])
            r.cases += 1
            try:
                v = worker_failure_violation(case, sc, procs, ctx_name)
            except Exception as e:
                v = f"scenario could not run: {type(e).__name__}: {e}"[:240]
            if v:
                r.bad.append({"suite": "worker-crash", "what": v, "case": case, "scenario": list(sc), "procs": procs,
                              "ctx": ctx_name})
    r.nontrivial = r.cases
    r.stats = {"configurations": n_cfg, "scenarios": r.cases}
    r.samples = [{"scenarios": ["truncated-input", "save-fails"], "processes": [2, 3]}]
    return r


# ------------------------------------------------------------------ search / replay
def big_cluster_cases(rng):
    """workflows in which one cluster crosses a counter-width boundary (255 -> uint16 buffers,
    65535 -> uint32 buffers) at a hand-off between rounds; only used by the search"""
    out = []
    for group in (300, 65536 + rng.randrange(0, 40)):
        nf = 16
        base = [rng.random() < 0.5 for _ in range(nf)]
        base[0] = True
        others, _ = hist.gen_fps(rng, 40, nf, None, 0.3)
        files = [others[:13], [list(map(int, base))] * group + others[13:20], others[20:]]
        cfg = {"bf": 50, "thr": 0.65, "change": 0.0, "tol": 0.05, "init": "diameter", "mid": "diameter",
               "final": None, "rounds": 1, "bin": 2, "refine": "none", "split_after": False,
               "save_centroids": True, "cleanup": False, "packed": True}
        out.append({"nf": nf, "files": files, "cfg": cfg})
    return out


def suite_mr_big(seed, tier):
    """workflows in which one cluster crosses a counter-width boundary at a hand-off between rounds (a family
    of ~300 and one of more than 65535 equal rows: uint16 and uint32 buffer files); direct oracles only"""
    r = Result("multiround-big")
    for case in big_cluster_cases(random.Random(seed + 8)):
        r.cases += 1
        with tempfile.TemporaryDirectory(prefix="verif_mrbig_") as tmp:
            tmp = Path(tmp)
            (tmp / "in").mkdir()
            (tmp / "out").mkdir()
            try:
                run_impl(case, tmp / "out", tmp / "in")
                ents = read_dir(tmp / "out", case["nf"])
                v = c05_violation(case, ents) or c09_rounds_violation(ents, case["cfg"]["split_after"])
            except Exception as e:
                v = f"the workflow failed: {type(e).__name__}: {e}"[:200]
        if v:
            small = {**case, "files": [[list(x) for x in f[:3]] + ["... %d rows" % len(f)] for f in case["files"]]}
            r.bad.append({"suite": "multiround-big", "what": v, "big_cluster_seed": seed + 8,
                          "group_size": max(len(f) for f in case["files"]), "case_summary": small})
    r.nontrivial = r.cases
    r.stats = {"cases": r.cases}
    r.samples = [{"families": [300, "65536+"]}]
    return r


def search_mr(which):
    def search(seed, tier, failures):
        for kind, d in failures:
            if isinstance(d, dict) and "what" in d and "Model/" not in d["what"]:
                return {"violation": d["what"], **{k: v for k, v in d.items() if k not in ("what", "suite")}}
        if which == "C05":
            for case in big_cluster_cases(random.Random(seed)):
                with tempfile.TemporaryDirectory(prefix="verif_mrbig_") as tmp:
                    tmp = Path(tmp)
                    (tmp / "in").mkdir()
                    (tmp / "out").mkdir()
                    try:
                        run_impl(case, tmp / "out", tmp / "in")
                        v = c05_violation(case, read_dir(tmp / "out", case["nf"]))
                    except Exception as e:
                        v = f"the workflow failed: {type(e).__name__}: {e}"[:200]
                if v:
                    small = {**case, "files": [[list(r) for r in f[:3]] + ["... %d rows" % len(f)]
                                               for f in case["files"]]}
                    return {"violation": v, "big_cluster_seed": seed, "group_size": max(len(f) for f in case["files"]),
                            "case_summary": small}
        suites = {"C05": [suite_mr_files, suite_mr_options], "C06": [suite_sched], "C09": [suite_mr_files, suite_mr_options],
                  "C14": [suite_crash, suite_worker_crash]}[which]
        # (the suites may not have run at all when the model did not build: start with this run's seed)
        for sd in (seed, seed + 1, seed + 2):
            for s in suites:
                try:
                    rr = s(sd, "quick")
                except Exception:
                    continue            # e.g. the model objects are missing: the direct oracles already ran
                for d in rr.bad:
                    if "Model/" not in d["what"]:
                        return {"violation": d["what"], **{k: v for k, v in d.items() if k not in ("what", "suite")}}
        return None
    return search


def replay_mr(which):
    def replay(payload):
        fi = payload.get("failing_input")
        if fi and "big_cluster_seed" in fi:
            for case in big_cluster_cases(random.Random(fi["big_cluster_seed"])):
                with tempfile.TemporaryDirectory(prefix="verif_mrbig_") as tmp:
                    tmp = Path(tmp)
                    (tmp / "in").mkdir()
                    (tmp / "out").mkdir()
                    try:
                        run_impl(case, tmp / "out", tmp / "in")
                    except Exception:
                        return False
                    ents = read_dir(tmp / "out", case["nf"])
                    if c05_violation(case, ents) or c09_rounds_violation(ents, case["cfg"]["split_after"]):
                        return False
            return True
        if not fi or "case" not in fi:
            return True
        case = fi["case"]
        if "dirty_first" in fi or case["cfg"].get("max_fps") is not None:
            return mr_options_violation(case, fi.get("dirty_first")) is None
        with tempfile.TemporaryDirectory(prefix="verif_mrr_") as tmp:
            tmp = Path(tmp)
            (tmp / "in").mkdir()
            (tmp / "out").mkdir()
            try:
                run_impl({**case, "cfg": {**case["cfg"], "cleanup": False}}, tmp / "out", tmp / "in")
            except Exception:
                return False
            ents = read_dir(tmp / "out", case["nf"])
            return c05_violation(case, ents) is None and \
                c09_rounds_violation(ents, case["cfg"]["split_after"]) is None
    return replay


def replay_c06(payload):
    """re-executes the recorded workflow serially and under reversed / rotated / random task orders
    and two real pools; True = all output directories (final files for real pools) are equal"""
    import multiprocessing as mp
    fi = payload.get("failing_input")
    if fi and "hash_seed_case" in fi:
        _, outs = hash_seed_results(fi["hash_seed_case"], fi.get("hash_seeds", ["0", "1", "2"]))
        return not any(v.startswith("failed") for v in outs.values()) and len(set(outs.values())) == 1
    if not fi or "case" not in fi:
        return True
    case = {**fi["case"], "cfg": {**fi["case"]["cfg"], "cleanup": False}}
    rng = random.Random(12345)
    with tempfile.TemporaryDirectory(prefix="verif_c06r_") as tmp:
        tmp = Path(tmp)
        (tmp / "in").mkdir()
        paths = write_inputs(case, tmp / "in")
        (tmp / "ser").mkdir()
        try:
            run_impl(case, tmp / "ser", None, paths=paths)
        except Exception:
            return False
        ref = read_dir(tmp / "ser", case["nf"])
        for o, kind in enumerate(["reversed", "rotated", "random", "random"]):
            def order_fn(idx, kind=kind):
                if kind == "reversed":
                    idx.reverse()
                elif kind == "rotated":
                    idx.append(idx.pop(0))
                else:
                    rng.shuffle(idx)
            FakePool.order_fn = staticmethod(order_fn)
            od = tmp / f"o{o}"
            od.mkdir()
            try:
                run_impl(case, od, None, mp_context=FakeCtx, procs=3, paths=paths)
            except Exception:
                return False
            if read_dir(od, case["nf"]) != ref:
                return False
        for procs, method in ((2, "forkserver"), (5, "fork")):
            od = tmp / f"p{procs}"
            od.mkdir()
            try:
                run_impl(case, od, None, mp_context=mp.get_context(method), procs=procs, paths=paths)
            except Exception:
                return False
            if finals(read_dir(od, case["nf"])) != finals(ref):
                return False
    return True


def replay_c14(payload):
    """crash at the recorded file action, re-run the recorded variant in the same directory and
    compare the final files with a fresh directory; True = property holds on this input"""
    fi = payload.get("failing_input")
    if fi and "scenario" in fi and "case" in fi:
        return worker_failure_violation(fi["case"], tuple(fi["scenario"]), fi.get("procs", 2),
                                        fi.get("ctx", "fork")) is None
    if not fi or "case" not in fi or "crash_at" not in fi:
        return True
    case, cp, name = fi["case"], fi["crash_at"], fi.get("rerun", "same")
    with tempfile.TemporaryDirectory(prefix="verif_c14r_") as tmp:
        tmp = Path(tmp)
        (tmp / "in").mkdir()
        paths = write_inputs(case, tmp / "in")
        v, vp = case, paths
        if name == "threshold":
            v = {**case, "cfg": {**case["cfg"], "thr": 0.9 if case["cfg"]["thr"] < 0.6 else 0.2}}
        keep = fi.get("rerun_files")
        if keep is not None:
            v, vp = {**v, "files": [case["files"][i] for i in keep]}, [paths[i] for i in keep]
        elif name == "fewer-files":
            v, vp = {**case, "files": case["files"][1:]}, paths[1:]
        used = tmp / ("used" + fi.get("dir_suffix", ""))
        (tmp / "fresh").mkdir()
        used.mkdir()
        if name == "none":
            _, crashed = count_and_crash({**case, "cfg": {**case["cfg"], "cleanup": False}}, paths, used, cp)
            return not (crashed and (used / "clusters.pkl").exists())
        try:
            run_impl(v, tmp / "fresh", None, paths=vp)
            count_and_crash({**case, "cfg": {**case["cfg"], "cleanup": False}}, paths, used, cp)
            run_impl(v, used, None, paths=vp)
        except Exception:
            return False
        got = read_dir(used, case["nf"])
        if fi.get("check_cleanup") and v["cfg"]["cleanup"] and any(n.startswith("round-") for n, _ in got):
            return False
        return finals(got) == finals(read_dir(tmp / "fresh", case["nf"]))


if __name__ == "__main__":
    import sys
    import time
    which = sys.argv[3] if len(sys.argv) > 3 else "files"
    s = {"files": suite_mr_files, "sched": suite_sched, "crash": suite_crash, "wcrash": suite_worker_crash}[which]
    t0 = time.time()
    rr = s(int(sys.argv[1]) if len(sys.argv) > 1 else 1, sys.argv[2] if len(sys.argv) > 2 else "quick")
    print(rr.name, rr.cases, rr.nontrivial, len(rr.bad), rr.stats, "%.1fs" % (time.time() - t0))
    for b in rr.bad[:4]:
        print(b["what"], str(b.get("case", {}).get("cfg"))[:400], [len(f) for f in b.get("case", {}).get("files", [])])
