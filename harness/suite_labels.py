"""Suite `labels` (C18): get_assignments, the scikit-learn wrappers (labels_, fit_predict,
predict, transform, packed and unpacked, compute_labels on/off, incremental fits) and
dump_assignments — implementation vs Model/Labels.v."""
import csv
import random
import tempfile
import warnings
from pathlib import Path

import numpy as np

from common import cz, cfloat, clist, czl, cfpv, copt, eval_cases
from pipeline import Result
import hist

warnings.filterwarnings("ignore")


def direct_labels(bb):
    """the C18 statement itself: 1-based rank of the cluster in the size-sorted list"""
    cl = sorted(bb.get_cluster_mol_ids(sort=True), key=len, reverse=True)   # stable: a no-op when sorted
    lab = [0] * bb.num_fitted_fps
    for k, c in enumerate(cl, 1):
        for i in c:
            lab[i] = k
    return lab


def run_case(rng, packed, compute_labels, cfg, nf, batches, Q):
    import bblean.sklearn as sk
    kw = dict(threshold=cfg["thr"], branching_factor=cfg["bf"], merge_criterion=cfg["crit"],
              compute_labels=compute_labels)
    if cfg["tol"] is not None:
        kw["tolerance"] = cfg["tol"]
    est = (sk.BitBirch if packed else sk.UnpackedBitBirch)(**kw)
    obs = []
    problems = []

    def enc(rows):
        A = np.array(rows, dtype=np.uint8).reshape(len(rows), nf)
        return np.packbits(A, axis=1) if packed else A
    extra = dict(n_features=nf) if packed else {}
    for k, rows in enumerate(batches):
        how = rng.choice(["fit", "fit_predict", "partial_fit"])
        if how == "fit":
            est.fit(enc(rows), **extra)
            ret = None
        elif how == "partial_fit":
            est.partial_fit(enc(rows), **extra)
            ret = None
        else:
            ret = [int(v) for v in est.fit_predict(enc(rows), **extra)]
        truth = direct_labels(est)
        if ret is not None and ret != truth:
            problems.append(f"fit_predict call #{k + 1} returned {len(ret)} labels {ret[:6]}..., "
                            f"clusters say {len(truth)} labels {truth[:6]}...")
        if (compute_labels or how == "fit_predict") and [int(v) for v in est.labels_] != truth:
            problems.append(f"labels_ after {how} #{k + 1} disagrees with the clusters")
        obs.append({"labels": [int(v) for v in est.get_assignments()]})
    pred = [int(v) for v in est.predict(enc(Q), **extra)]
    tr = [[float(v) for v in row] for row in est.transform(enc(Q), **extra)]
    # dump_assignments
    with tempfile.TemporaryDirectory(prefix="verif_lab_") as tmp:
        p = Path(tmp) / "a.csv"
        est.dump_assignments(p)
        with open(p) as f:
            rd = list(csv.reader(f))
        if [int(r[0]) for r in rd[1:]] != direct_labels(est):
            problems.append("dump_assignments csv disagrees with the clusters")
    # direct: transform = Jaccard distance to the centroid of the cluster of that rank
    # (the centroids are recomputed from the members the LABELS name: majority vote with ties set over the
    # rows labelled k — nothing is taken from the estimator's own centroid list or its order)
    allrows = np.array([r for b in batches for r in b], dtype=np.uint8).reshape(-1, nf)
    final_labels = direct_labels(est)
    cents = []
    for k in range(1, (max(final_labels) if final_labels and len(final_labels) == len(allrows) else 0) + 1):
        mem = allrows[[i for i, l in enumerate(final_labels) if l == k]]
        cents.append((2 * mem.sum(axis=0, dtype=np.int64) >= len(mem)) if len(mem) > 1 else mem[0].astype(bool))
    for qi, row in enumerate(tr):
        q = np.array(Q[qi], dtype=bool)
        for k, c in enumerate(cents[:len(row)]):
            union = int((q | c).sum())
            want = 1.0 - (int((q & c).sum()) / union if union else 0.0)
            if abs(row[k] - want) > 1e-12:
                problems.append(f"transform row {qi}: distance to the cluster of rank {k + 1} is {row[k]!r}, the "
                                f"Jaccard distance to its centroid is {want!r}")
                break
    # direct: predict = label of a nearest centroid under transform
    for qi, (p_, row) in enumerate(zip(pred, tr)):
        if row[p_ - 1] != min(row):
            problems.append(f"predict row {qi}: label {p_} is not a nearest centroid")
    return obs, pred, tr, problems


def suite_labels(seed, tier):
    rng = random.Random(seed)
    r = Result("labels")
    n_cases = 60 if tier == "quick" else 1500
    terms, meta = [], []
    for _case in range(n_cases):
        cfg = hist.gen_cfg(rng)
        nf = rng.choice([5, 8, 11, 16, 24])
        nb = rng.randint(1, 3)
        protos = None
        batches = []
        tall = (_case % 60 in (7, 27))    # clusters of 128..255 members / of more than 255 (uint8 / uint16 sums)
        for _b in range(nb):
            rows, protos = hist.gen_fps(rng, rng.randint(2, 18), nf, protos)
            batches.append(rows)
        if tall:
            base = [1 if j % 2 == 0 else 0 for j in range(nf)]
            over = (_case % 60 == 7)      # the big cluster passes 255 members
            fam = []
            for _k in range(rng.choice([300, 340]) if over else rng.choice([150, 230])):
                row = list(base)
                if rng.random() < (0.1 if over else 0.3):
                    row[rng.randrange(nf)] ^= 1
                fam.append(row)
            if over:
                # a small family on the complementary bits FIRST and a high threshold: it stays a cluster
                # of its own (iSIM of k equal rows plus a disjoint one is (k-1)/(k+1) < 0.95 for k <= 20)
                other = [[1 - b for b in base] for _k in range(rng.randint(3, 20))]
                batches = [other + fam] + batches[:1]
                cfg = {**cfg, "thr": 0.95, "crit": "diameter", "tol": None}
            else:
                batches = [fam] + batches[:1]
                cfg = {**cfg, "thr": min(cfg["thr"], 0.5), "crit": "diameter", "tol": None}
        wide = (_case % 60 == 13)         # dense, wide fingerprints: intersections beyond 255 bits
        if wide:
            nf = rng.choice([320, 512, 1000])
            basew = [1 if rng.random() < 0.85 else 0 for _ in range(nf)]
            fam = []
            for _k in range(8):
                row = list(basew)
                for j in rng.sample(range(nf), 6):
                    row[j] ^= 1
                fam.append(row)
            other = [[1 if rng.random() < 0.5 else 0 for _ in range(nf)] for _k in range(4)]
            batches = [fam + other]
            cfg = {**cfg, "crit": "diameter", "tol": None, "thr": 0.6}
        Q = []
        while len(Q) < rng.randint(1, 5):
            q = [rng.randint(0, 1) for _ in range(nf)] if not wide else \
                [b ^ (1 if rng.random() < 0.02 else 0) for b in rng.choice(batches[0])]
            if any(q):
                Q.append(q)
        packed = rng.random() < 0.5
        cl = rng.random() < 0.5
        try:
            obs, pred, tr, problems = run_case(rng, packed, cl, cfg, nf, batches, Q)
        except Exception as e:
            r.bad.append({"suite": "labels", "what": f"wrapper raised {type(e).__name__}: {e}"[:300],
                          "cfg": cfg, "nf": nf, "batches": batches, "packed": packed, "compute_labels": cl})
            continue
        for pr in problems:
            r.bad.append({"suite": "labels", "what": pr, "cfg": cfg, "nf": nf, "batches": batches,
                          "packed": packed, "compute_labels": cl})
        ops = [f"(OFit {clist(['(Some ' + cfpv(x) + ')' for x in rows])} None)" for rows in batches]
        checks = []
        for k in range(len(batches)):
            st = f"(run fexp {hist.cfg_term(cfg)} {clist(ops[:k + 1])})"
            checks.append(f"opt_zl_eqb (sk_labels {st}) (Some {czl(obs[k]['labels'])})")
        st = f"(run fexp {hist.cfg_term(cfg)} {clist(ops)})"
        checks.append(f"zl_eqb (sk_predict {st} {clist(Q, cfpv)}) {czl(pred)}")
        checks.append(f"list_eqb fl_eqb (sk_transform {st} {clist(Q, cfpv)}) "
                      f"{clist(tr, lambda row: clist(row, cfloat))}")
        terms.append("[" + "; ".join(checks) + "]")
        meta.append({"cfg": cfg, "nf": nf, "batches": batches, "Q": Q, "packed": packed,
                     "compute_labels": cl})
    pre = hist.exp_preamble(80).replace("Model.Obs.", "Model.Obs Model.ObsBits Model.Labels.")
    out = eval_cases("labels", pre, terms, shard=100)
    r.cases = len(terms)
    r.nontrivial = len({str(m) for m in meta})
    for m, o in zip(meta, out):
        if "false" in o:
            r.bad.append({"suite": "labels", "what": "model differs: " + o[:80], **m})
    r.stats = {"packed": sum(1 for m in meta if m["packed"]),
               "compute_labels_off": sum(1 for m in meta if not m["compute_labels"]),
               "incremental": sum(1 for m in meta if len(m["batches"]) > 1)}
    r.samples = [{k: v for k, v in meta[0].items() if k != "batches"}]
    return r


def c18_state_violation(bb):
    """the assignment clause of C18 on an arbitrary estimator state (after fits, refinements,
    re-clusterings, parameter changes): None, or what is wrong"""
    if not bb.is_init:
        return None
    n = int(bb.num_fitted_fps)
    flat = sorted(int(i) for c in bb.get_cluster_mol_ids() for i in c)
    if flat != list(range(n)):
        return None                      # not a partition of 0..n-1: C01's business, C18 says nothing
    sizes = [len(c) for c in bb.get_cluster_mol_ids(sort=True)]
    if any(a < b for a, b in zip(sizes, sizes[1:])):
        return f"the size-sorted cluster list is not largest first: sizes {sizes[:12]}"
    for sort in (True, False):
        cl = bb.get_cluster_mol_ids(sort=sort)
        truth = [0] * n
        for k, c in enumerate(cl, 1):
            for i in c:
                truth[int(i)] = k
        for kw in ({}, {"check_valid": False}):
            try:
                got = [int(v) for v in bb.get_assignments(sort=sort, **kw)]
            except Exception as e:
                return (f"get_assignments(sort={sort}{', check_valid=False' if kw else ''}) refused a state in "
                        f"which each of the {n} fingerprints is in exactly one cluster: {type(e).__name__}: {e}; "
                        f"clusters = {[[int(i) for i in c] for c in cl][:8]}")
            if got != truth:
                bad = [i for i in range(n) if got[i] != truth[i]][:6]
                return (f"get_assignments(sort={sort}{', check_valid=False' if kw else ''}): fingerprints {bad} "
                        f"got labels {[got[i] for i in bad]}, their clusters have ranks {[truth[i] for i in bad]}; "
                        f"clusters = {[[int(i) for i in c] for c in cl][:8]}")
    return None


def c18_refusal_violation(bb):
    """`refused rather than returned with unlabeled entries`: when some fitted position 0..n-1 is in no
    cluster (labels given by the caller with repeats or gaps), get_assignments() must raise; a returned
    vector with a 0 entry is the violation"""
    if not bb.is_init:
        return None
    n = int(bb.num_fitted_fps)
    covered = {int(i) for c in bb.get_cluster_mol_ids() for i in c if 0 <= int(i) < n}
    if len(covered) == n:
        return None
    for sort in (True, False):
        try:
            got = [int(v) for v in bb.get_assignments(sort=sort)]
        except Exception:
            continue
        zeros = [i for i, v in enumerate(got) if v == 0]
        if zeros:
            return (f"get_assignments(sort={sort}) returned a vector with unlabeled entries at positions {zeros[:8]} "
                    f"({n} fitted, positions {sorted(set(range(n)) - covered)[:8]} are in no cluster) instead of raising")
    return None


def gen_gappy(seed, n):
    """fits whose caller-given labels repeat or leave gaps below the number of fitted rows; plain fits after them"""
    rng = random.Random(seed + 79)
    hs = []
    for _ in range(n):
        cfg = hist.gen_cfg(rng)
        nf = rng.choice([5, 8, 16])
        ops, protos = [], None
        total = 0
        for _k in range(rng.randint(1, 3)):
            m = rng.randint(2, 10)
            rows, protos = hist.gen_fps(rng, m, nf, protos)
            total += m
            kind = rng.choice(["repeat", "gap", "plain"])
            if kind == "plain":
                labels = None
            elif kind == "repeat":
                labels = [rng.randrange(total) for _ in range(m)]
            else:
                labels = rng.sample(range(total), m)
            ops.append({"op": "fit", "rows": rows, "labels": labels, "form": "unpacked-array", "bad_at": None})
        hs.append({"cfg": cfg, "nf": nf, "ops": ops})
    return hs


def run_states_oracle(h):
    """history h on the implementation, the assignment clause checked after every operation"""
    import bblean.bitbirch as bbm
    bbm._global_merge_accept = None
    bb = hist.make_bb(h["cfg"])
    data = {}
    for k, op in enumerate(h["ops"]):
        hist.apply_op(bb, op, data, h["nf"])
        v = c18_state_violation(bb) or c18_refusal_violation(bb)
        if v:
            return k, v
    return None


def gen_state_histories(seed, n):
    """histories whose fits are followed by refinements / re-clusterings: the states in which the
    member lists of clusters are no longer increasing"""
    rng = random.Random(seed + 77)
    hs = []
    while len(hs) < n:
        h = hist.gen_history(rng, max_ops=8, max_rows=rng.choice([6, 12, 24, 40]), with_bad=False)
        if any(o["op"] in ("refine", "recluster") for o in h["ops"]):
            hs.append(h)
    return hs


def suite_label_states(seed, tier):
    import suite_hist
    hs = gen_state_histories(seed, 600 if tier == "quick" else 12000)
    gappy = gen_gappy(seed, 150 if tier == "quick" else 3000)
    n_model = 30 if tier == "quick" else 400
    hs = hs[:n_model] + gappy + hs[n_model:]
    r = Result("label-states")
    states = 0
    for h in hs:
        try:
            v = run_states_oracle(h)
        except Exception as e:
            v = (len(h["ops"]) - 1, f"history could not run: {type(e).__name__}: {e}"[:300])
        states += len(h["ops"])
        if v:
            hh = dict(h)
            hh["ops"] = h["ops"][:v[0] + 1]
            r.bad.append({"suite": "label-states", "what": v[1], "history": hh, "after_op": v[0]})
    # the same states on the model (the observation compared includes get_assignments())
    m = suite_hist._run("label-states-model", hs[:30 if tier == "quick" else 400], walk=False)
    for b in m.bad:
        r.bad.append({**b, "suite": "label-states", "what": "model differs at op %s" % b.get("first_mismatch_at_op")})
    r.cases = len(hs)
    r.nontrivial = len(hs)
    r.stats = {"histories": len(hs), "states_checked": states, "on_model": m.cases}
    r.samples = [{"cfg": hs[0]["cfg"], "ops": [o["op"] for o in hs[0]["ops"]]}]
    return r


def search_c18(seed, tier, failures):
    import replay_util
    return replay_util.make_search([suite_labels, suite_label_states])(seed, tier, failures)


def replay_c18(payload):
    import replay_util
    return replay_util.make_replay([suite_labels, suite_label_states])(payload)


if __name__ == "__main__":
    import sys
    for su in (suite_labels, suite_label_states):
        rr = su(int(sys.argv[1]) if len(sys.argv) > 1 else 1, sys.argv[2] if len(sys.argv) > 2 else "quick")
        print(rr.name, rr.cases, rr.nontrivial, len(rr.bad), rr.stats)
        for b in rr.bad[:3]:
            print(str(b)[:600])
