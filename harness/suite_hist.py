"""Suite hist-api / tree-walk: random histories, model vs implementation after every op."""
import json
import random
import sys
import time

import hist
from common import eval_cases


def run_suite(name, seed, n_cases, walk, max_ops=8, max_rows=20, shard=100):
    rng = random.Random(seed)
    hs, rs, terms = [], [], []
    stats = {"ops": {}, "errs": 0, "rows": 0, "crit": {}, "max_depth": 0, "splits": 0}
    for _ in range(n_cases):
        h = hist.gen_history(rng, max_ops=max_ops, max_rows=max_rows)
        r = hist.run_impl(h, walk=True)
        hs.append(h)
        rs.append(r)
        terms.append(hist.case_term(h, r, walk))
        stats["crit"][h["cfg"]["crit"]] = stats["crit"].get(h["cfg"]["crit"], 0) + 1
        for op, (o, ex) in zip(h["ops"], r):
            stats["ops"][op["op"]] = stats["ops"].get(op["op"], 0) + 1
            if not o["ok"]:
                stats["errs"] += 1
            if op["op"] == "fit":
                stats["rows"] += len(op["rows"])
            t = o["tree"]
            d = 0
            while t is not None and t[0] == "inner":
                d += 1
                t = t[2][0][1]
            stats["max_depth"] = max(stats["max_depth"], d)
    out = eval_cases(name, hist.exp_preamble(), terms, shard=shard)
    bad = [(i, int(v.strip("()"))) for i, v in enumerate(out) if v.strip() != "(-1)" and v.strip() != "-1"]
    return hs, rs, bad, stats


if __name__ == "__main__":
    seed = int(sys.argv[1]) if len(sys.argv) > 1 else 1
    n = int(sys.argv[2]) if len(sys.argv) > 2 else 50
    t0 = time.time()
    hs, rs, bad, stats = run_suite("hist-dev", seed, n, walk=True)
    print("stats", json.dumps(stats))
    print("time", time.time() - t0, "bad", len(bad))
    for i, k in bad[:5]:
        print("CASE", i, "first mismatch at op", k)
        print(json.dumps(hs[i]["cfg"]), hs[i]["nf"], [o["op"] for o in hs[i]["ops"]])
        print("impl:", json.dumps(rs[i][k][0])[:1500])
        print("extra:", json.dumps({kk: vv for kk, vv in rs[i][k][1].items() if kk != "X"})[:500])
        tr = eval_cases("hist-dev-trace", hist.exp_preamble(), [hist.trace_term(hs[i], rs[i])])
        print("model trace:", tr[0][:3000])
