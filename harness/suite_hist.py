"""Suites over operation histories of BitBirch (model vs implementation after EVERY op):
  hist-api    public observations (clusters sorted/unsorted, counts, centroids, assignments)
  tree-walk   additionally the whole internal tree (entries, buffers+dtype, caches, chain)
  boundary    long single-fit histories whose inner entries cross 255 -> 256 members
  exhaustive  all fingerprint sequences of small length/width at branching factor 2
"""
import itertools
import json
import random
import sys
import time

import hist
import oracles_hist
from common import eval_cases
from pipeline import Result


def _depth(t):
    d = 0
    while t is not None and t[0] == "inner":
        d += 1
        t = t[2][0][1]
    return d


def _run(name, hs, walk, shard=100):
    rs, terms = [], []
    stats = {"ops": {}, "errs": 0, "rows": 0, "crit": {}, "max_depth": 0, "histories": len(hs),
             "inner_splits_seen": 0}
    for h in hs:
        r = hist.run_impl(h, walk=True)
        rs.append(r)
        terms.append(hist.case_term(h, r, walk))
        c = h["cfg"]["crit"]
        stats["crit"][c] = stats["crit"].get(c, 0) + 1
        for op, (o, ex) in zip(h["ops"], r):
            stats["ops"][op["op"]] = stats["ops"].get(op["op"], 0) + 1
            stats["errs"] += 0 if o["ok"] else 1
            if op["op"] == "fit":
                stats["rows"] += len(op["rows"])
            d = _depth(o["tree"])
            stats["max_depth"] = max(stats["max_depth"], d)
            if d >= 2:
                stats["inner_splits_seen"] += 1
    maxn = max([600] + [sum(len(o["rows"]) for o in h["ops"] if o["op"] == "fit") for h in hs])
    out = eval_cases(name, hist.exp_preamble(maxn + 10), terms, shard=shard)
    res = Result(name)
    res.cases = len(hs)
    res.nontrivial = len({json.dumps(h, sort_keys=True) for h in hs
                          if sum(len(o["rows"]) for o in h["ops"] if o["op"] == "fit") >= 2})
    for h, r, v in zip(hs, rs, out):
        k = int(v.strip().strip("()"))
        if k != -1:
            hh = dict(h)
            hh["ops"] = h["ops"][:k + 1]          # shrink: the prefix up to the first mismatch
            res.bad.append({"suite": name, "history": hh, "first_mismatch_at_op": k,
                            "impl_observation": {kk: vv for kk, vv in r[k][0].items() if kk != "tree"},
                            "impl_error": r[k][1].get("error")})
    res.stats = stats
    res.samples = [{"cfg": hs[0]["cfg"], "nf": hs[0]["nf"],
                    "ops": [o["op"] for o in hs[0]["ops"]]}]
    return res


def gen_histories(seed, n, max_ops=8, max_rows=20):
    rng = random.Random(seed)
    return [hist.gen_history(rng, max_ops=max_ops, max_rows=max_rows) for _ in range(n)]


def suite_hist_api(seed, tier):
    n = 150 if tier == "quick" else 4000
    rng = random.Random(seed + 31)
    labelled = [hist.gen_history(rng, max_ops=7, max_rows=16, user_labels=True) for _ in range(n // 6)]
    hs = gen_histories(seed, n, max_ops=10, max_rows=24) + gen_switch(seed, n // 5) + labelled \
        + gen_refine_twice(seed, n // 10) + gen_bf_change(seed, n // 5)
    return _run("hist-api", hs, walk=False)


def suite_tree_walk(seed, tier):
    n = 120 if tier == "quick" else 2500
    return _run("tree-walk", gen_histories(seed + 101, n, max_ops=6, max_rows=18), walk=True)


def gen_boundary(seed, tier):
    """fits of ~300-600 near-duplicate rows with common bits at small branching factors:
    inner entries (and, at threshold 0, leaf clusters) cross 255 -> 256 members"""
    rng = random.Random(seed + 7)
    hs = []
    for k in range(3 if tier == "quick" else 16):
        nf = rng.choice([5, 8, 11])
        n = rng.choice([300, 420]) if tier == "quick" else rng.choice([300, 520, 700])
        base = [1] + [rng.randint(0, 1) for _ in range(nf - 1)]       # bit 0 common to all
        rows = []
        for _ in range(n):
            r = list(base)
            for j in range(1, nf):
                if rng.random() < 0.25:
                    r[j] ^= 1
            rows.append(r)
        crit = rng.choice(["diameter", "radius", "tolerance-diameter"])
        cfg = {"crit": crit, "tol": 0.05 if crit.startswith("tol") else None,
               "thr": rng.choice([0.0, 0.55, 0.8]) if k else 0.0, "bf": rng.choice([2, 3, 5])}
        ops = [{"op": "fit", "rows": rows, "labels": None, "form": "unpacked-array", "bad_at": None}]
        if rng.random() < 0.7:
            # (a shuffled list of leaf clusters interleaves the counter widths of big and small clusters)
            ops.append({"op": "recluster", "iters": 1, "extra": 0.0, "shuffle": k % 2 == 1, "seed": k,
                        "stop_early": False})
        if rng.random() < 0.5:
            ops.append({"op": "refine", "n_largest": 1, "initial_mol": 0})
        hs.append({"cfg": cfg, "nf": nf, "ops": ops})
    # a cluster of >= 256 members next to many small ones, then a SHUFFLED recluster
    for k in range(1 if tier == "quick" else 4):
        nf = 8
        big = [[1, 1, 1, 1, 0, 0, 0, 0] for _ in range(rng.choice([260, 300]))]
        small = []
        for g in range(6):
            own = [0, 0, 0, 0] + [1 if (g >> b) & 1 else 0 for b in range(3)] + [1]
            small += [own] * rng.randint(2, 5)
        rows = big + small
        rng.shuffle(rows)
        hs.append({"cfg": {"crit": "diameter", "tol": None, "thr": 0.9, "bf": 50}, "nf": nf,
                   "ops": [{"op": "fit", "rows": rows, "labels": None, "form": "unpacked-array", "bad_at": None},
                           {"op": "recluster", "iters": 1 + k % 2, "extra": 0.0, "shuffle": True, "seed": k,
                            "stop_early": False}]})
    # a cluster of >= 256 members next to a mid-size, looser family; then a stricter threshold and a
    # refinement of the single largest cluster: only that one may be taken apart
    for k in range(1 if tier == "quick" else 4):
        nf = 16
        a = [1] * 8 + [0] * 8
        big = []
        for _ in range(rng.choice([262, 300, 340])):
            r_ = list(a)
            if rng.random() < 0.3:
                r_[rng.randrange(8)] ^= 1
            big.append(r_)
        # stragglers: members of the big family at the loose threshold that stay alone (or in small
        # groups) once the threshold is strict and the family is re-inserted piece by piece
        for _ in range(rng.randint(3, 6)):
            r_ = list(a)
            for j in rng.sample(range(8), rng.choice([3, 4])):
                r_[j] = 0
            big.append(r_)
        b = [0] * 8 + [1] * 8
        mid = []
        for _ in range(rng.choice([40, 90, 140])):
            r_ = list(b)
            for j in rng.sample(range(8, 16), rng.choice([0, 1, 2, 3])):
                r_[j] = 0
            mid.append(r_)
        rows = big + mid
        rng.shuffle(rows)
        hs.append({"cfg": {"crit": "diameter", "tol": None, "thr": 0.3, "bf": rng.choice([5, 50])}, "nf": nf,
                   "ops": [{"op": "fit", "rows": rows, "labels": None, "form": "unpacked-array", "bad_at": None},
                           {"op": "setcfg", "crit": None, "tol": None, "thr": rng.choice([0.8, 0.9]), "bf": None},
                           {"op": "refine", "n_largest": 1, "initial_mol": 0,
                            "xform": rng.choice(["array", "path", "seq"])}]})
    return hs


def gen_exact_boundary(seed, tier):
    """one cluster of exactly 255 / 256 members (threshold 0), then rebuilt from its buffer"""
    rng = random.Random(seed + 11)
    hs = []
    for n in ([255] if tier == "quick" else [255, 256, 254]):
        nf = 6
        rows = [[1 if rng.random() < d else 0 for d in (0.3, 0.45, 0.5, 0.55, 0.7, 0.0)] for _ in range(n)]
        for tail in ([{"op": "recluster", "iters": 1, "extra": 0.0, "shuffle": False, "seed": 0,
                       "stop_early": False}],
                     [{"op": "refine", "n_largest": 0, "initial_mol": 0}]):
            hs.append({"cfg": {"crit": "diameter", "tol": None, "thr": 0.0, "bf": 3}, "nf": nf,
                       "ops": [{"op": "fit", "rows": rows, "labels": None,
                                "form": "unpacked-array", "bad_at": None}] + tail})
    return hs


def gen_merge_boundary(seed, tier):
    """two multi-member clusters (each below 256 members, together above 255) built under a strict
    threshold and then MERGED by a recluster / refine under a lax one: the count jumps over a
    counter-width boundary without ever being equal to it"""
    rng = random.Random(seed + 17)
    hs = []
    for a, b in ([(180, 120)] if tier == "quick" else [(180, 120), (200, 100), (130, 130), (254, 3)]):
        nf = 8
        rows = []
        for n, own in ((a, [3, 4]), (b, [5, 6])):
            for _ in range(n):
                r = [1, 1, 1, 0, 0, 0, 0, 0]
                for j in own:
                    r[j] = 1
                if rng.random() < 0.1:
                    r[7] = 1
                rows.append(r)
        for tail in ({"op": "recluster", "iters": 1, "extra": 0.0, "shuffle": False, "seed": 0, "stop_early": False},
                     {"op": "refine", "n_largest": 0, "initial_mol": 0}):
            hs.append({"cfg": {"crit": "diameter", "tol": None, "thr": 0.8, "bf": 50}, "nf": nf,
                       "ops": [{"op": "fit", "rows": rows, "labels": None, "form": "unpacked-array", "bad_at": None},
                               {"op": "setcfg", "crit": None, "tol": None, "thr": 0.3, "bf": None}, tail]})
    return hs


def gen_refine_twice(seed, n):
    """noisy families, a shuffled recluster (member lists stop being ascending), then two refinements
    with X handed over as a .npy path / packed path / array"""
    rng = random.Random(seed + 19)
    hs = []
    for _ in range(n):
        nf = rng.choice([8, 12, 16])
        rows, _ = hist.gen_fps(rng, rng.randint(20, 40), nf, None, rng.choice([0.1, 0.15, 0.2]))
        crit = rng.choice(["diameter", "radius", "tolerance-diameter"])
        cfg = {"crit": crit, "tol": 0.05 if crit in hist.HAS_TOL else None,
               "thr": rng.choice([0.3, 0.4, 0.5, 0.65]), "bf": rng.choice([3, 5, 50])}
        ops = [{"op": "fit", "rows": rows, "labels": None, "form": "unpacked-array", "bad_at": None},
               {"op": "recluster", "iters": 1, "extra": 0.0, "shuffle": True, "seed": rng.randint(0, 99),
                "stop_early": False}]
        for _k in range(2):
            ops.append({"op": "refine", "n_largest": 1, "initial_mol": 0,
                        "xform": rng.choice(["path", "packed-path", "array"])})
        hs.append({"cfg": cfg, "nf": nf, "ops": ops})
    return hs


def gen_switch(seed, n):
    """grow clusters under a lax pair, then tighten / switch the criterion and keep fitting"""
    rng = random.Random(seed + 13)
    hs = []
    for _ in range(n):
        nf = rng.choice([8, 12, 16])
        rows1, protos = hist.gen_fps(rng, rng.randint(8, 20), nf, None, rng.choice([0.15, 0.3]))
        rows2, _ = hist.gen_fps(rng, rng.randint(6, 16), nf, protos, rng.choice([0.0, 0.05, 0.15]))
        c1 = rng.choice(["diameter", "radius", "tolerance-diameter", "tolerance-radius"])
        c2 = rng.choice(hist.CRITS)
        cfg = {"crit": c1, "tol": 0.05 if c1 in hist.HAS_TOL else None,
               "thr": rng.choice([0.0, 0.1, 0.2, 0.3]), "bf": rng.choice([2, 3, 5])}
        ops = [{"op": "fit", "rows": rows1, "labels": None, "form": "unpacked-array", "bad_at": None},
               {"op": "setcfg", "crit": c2, "tol": rng.choice([0.0, 0.05, 1.0]) if c2 in hist.HAS_TOL else None,
                "thr": rng.choice([0.5, 0.7, 0.9]), "bf": None},
               {"op": "fit", "rows": rows2, "labels": None, "form": "unpacked-list", "bad_at": None}]
        hs.append({"cfg": cfg, "nf": nf, "ops": ops})
    return hs


def gen_bf_change(seed, n):
    """nodes filled under one branching factor, then the branching factor is lowered (or raised) through the
    attribute / set_merge and the tree keeps growing: nodes of different capacities live in one tree and the
    old, fuller ones split afterwards"""
    rng = random.Random(seed + 97)
    hs = []
    for k in range(n):
        nf = rng.choice([8, 11, 16])
        crit, thr = rng.choice([("never-merge", 0.5), ("diameter", 0.95), ("diameter", 0.8), ("radius", 0.9)])
        bf0 = rng.choice([5, 6, 7, 7])
        bf1 = rng.choice([2, 2, 3, 4]) if k % 4 else rng.choice([8, 12])
        cfg = {"crit": crit, "tol": 0.05 if crit == "never-merge" else None, "thr": thr, "bf": bf0}
        rows1 = [[rng.randint(0, 1) for _ in range(nf)] for _ in range(rng.randint(10, 36))]
        rows2 = [[rng.randint(0, 1) for _ in range(nf)] for _ in range(rng.randint(8, 30))]
        ops = [{"op": "fit", "rows": rows1, "labels": None, "form": "unpacked-array", "bad_at": None},
               {"op": "setcfg", "crit": None, "tol": None, "thr": None, "bf": bf1},
               {"op": "fit", "rows": rows2, "labels": None, "form": "unpacked-array", "bad_at": None}]
        if rng.random() < 0.3:
            ops.append({"op": "recluster", "iters": 1, "extra": 0.0, "shuffle": rng.random() < 0.5,
                        "seed": rng.randint(0, 99), "stop_early": False})
        hs.append({"cfg": cfg, "nf": nf, "ops": ops})
    return hs


def gen_shuffled_big(seed, n):
    """a cluster of >= 256 members (uint16 counters) next to small ones, then a SHUFFLED recluster, under n
    different shuffle seeds: the position of the big cluster in the shuffled list varies (first, last, ...)"""
    rng = random.Random(seed + 101)
    hs = []
    for k in range(n):
        nf = 8
        big = [[1, 1, 1, 1, 0, 0, 0, 0] for _ in range(rng.choice([260, 300]))]
        small = []
        for g in range(rng.choice([2, 3, 6])):
            own = [0, 0, 0, 0] + [1 if (g >> b) & 1 else 0 for b in range(3)] + [1]
            small += [own] * rng.randint(1, 4)
        rows = big + small
        rng.shuffle(rows)
        # (at 0.999 a few foreign rows are not absorbed by 260+ equal ones: the small clusters stay apart)
        hs.append({"cfg": {"crit": "diameter", "tol": None, "thr": 0.999 if k % 3 else 0.9, "bf": rng.choice([4, 50])},
                   "nf": nf,
                   "ops": [{"op": "fit", "rows": rows, "labels": None, "form": "unpacked-array", "bad_at": None},
                           {"op": "recluster", "iters": 1, "extra": 0.0, "shuffle": True, "seed": k,
                            "stop_early": False}]})
    return hs


def suite_boundary(seed, tier):
    return _run("boundary", gen_boundary(seed, tier) + gen_exact_boundary(seed, tier)
                + gen_merge_boundary(seed, tier) + gen_shuffled_big(seed, 3 if tier == "quick" else 12),
                walk=True, shard=1)


def suite_exhaustive(seed, tier):
    """every sequence of <= L fingerprints of W bits, bf = 2, all six criteria"""
    L, Wd = (3, 2) if tier == "quick" else (4, 3)
    hs = []
    fps = [list(p) for p in itertools.product([0, 1], repeat=Wd)]
    rng = random.Random(seed)
    for seq in itertools.product(fps, repeat=L):
        for crit in hist.CRITS:
            cfg = {"crit": crit, "tol": 0.05 if crit in hist.HAS_TOL else None,
                   "thr": rng.choice([0.0, 0.3, 0.5, 0.7, 1.0]), "bf": 2}
            # one row per fit call: the full state is compared after every single insertion
            ops = [{"op": "fit", "rows": [list(r)], "labels": None, "form": "unpacked-array",
                    "bad_at": None} for r in seq]
            hs.append({"cfg": cfg, "nf": Wd, "ops": ops})
    return _run("exhaustive", hs, walk=True, shard=200)


def gen_seq_refine(seed, n):
    """histories in which refinement reads the fingerprints back from a .npy file or a SEQUENCE of .npy
    files (packed or not) — the paths on which the split members are gathered by index — in states
    whose member lists are no longer increasing (after a re-clustering or an earlier refinement)"""
    rng = random.Random(seed + 53)
    hs = []
    while len(hs) < n:
        h = hist.gen_history(rng, max_ops=8, max_rows=rng.choice([8, 16, 30]), with_bad=False)
        seen_mix, ok = False, False
        for o in h["ops"]:
            if o["op"] == "refine":
                if rng.random() < 0.8:
                    o["xform"] = rng.choice(["seq", "packed-seq", "seq", "packed-seq", "path", "packed-path"])
                    ok = ok or seen_mix
                seen_mix = True
            elif o["op"] == "recluster":
                seen_mix = True
            elif o["op"] == "reset":
                seen_mix = False
        if ok:
            hs.append(h)
    return hs


def suite_seq_refine(which):
    """direct oracle `which` after every operation of the file-sequence refinement histories (no model
    term: the sorted re-read order is modelled in Model/Multiround.refine_groups_seq, suites multiround-*)"""
    def suite(seed, tier):
        hs = gen_seq_refine(seed, 250 if tier == "quick" else 5000)
        res = Result("seq-refine")
        for h in hs:
            try:
                v = oracles_hist.run_with_oracle(h, which)
            except Exception as e:
                v = (-1, f"oracle could not run: {type(e).__name__}: {e}"[:300])
            if v:
                hh = dict(h)
                if v[0] >= 0:
                    hh["ops"] = h["ops"][:v[0] + 1]
                res.bad.append({"suite": "seq-refine", "what": v[1], "history": hh, "after_op": v[0]})
        res.cases = len(hs)
        res.nontrivial = len(hs)
        res.stats = {"histories": len(hs), "oracle": which}
        res.samples = [{"cfg": hs[0]["cfg"], "ops": [o["op"] for o in hs[0]["ops"]]}]
        return res
    suite.__name__ = f"suite_seq_refine_{which}"
    return suite


def gen_tiny_long(seed, n):
    """long histories of single-row insertions over 2..4 bits with branching factors 2..4 and criteria that
    never or hardly ever merge: many entries with EQUAL per-bit sums and centroids (different subtrees
    holding the same columns, duplicate and all-zero rows), deep trees, frequent splits"""
    rng = random.Random(seed + 61)
    hs = []
    for _ in range(n):
        nf = rng.choice([2, 3, 4])
        crit, thr = rng.choice([("never-merge", 0.5), ("never-merge", 0.5), ("diameter", 1.0), ("radius", 0.9)])
        cfg = {"crit": crit, "tol": 0.05 if crit == "never-merge" else None, "thr": thr, "bf": rng.choice([2, 3, 4])}
        pz = rng.choice([0.0, 0.1])
        ops = []
        for _k in range(rng.randint(13, 30)):
            row = [0] * nf if rng.random() < pz else [rng.randint(0, 1) for _ in range(nf)]
            ops.append({"op": "fit", "rows": [row], "labels": None, "form": "unpacked-array", "bad_at": None})
        hs.append({"cfg": cfg, "nf": nf, "ops": ops})
    return hs


def suite_tiny_long(which):
    """direct oracle `which` after every single insertion of the tiny-width long histories (no model term)"""
    def suite(seed, tier):
        hs = gen_tiny_long(seed, 2000 if tier == "quick" else 30000)
        res = Result("tiny-long")
        for h in hs:
            try:
                v = oracles_hist.run_with_oracle(h, which)
            except Exception as e:
                v = (-1, f"oracle could not run: {type(e).__name__}: {e}"[:300])
            if v:
                hh = dict(h)
                if v[0] >= 0:
                    hh["ops"] = h["ops"][:v[0] + 1]
                res.bad.append({"suite": "tiny-long", "what": v[1], "history": hh, "after_op": v[0]})
        res.cases = len(hs)
        res.nontrivial = len(hs)
        res.stats = {"histories": len(hs), "insertions": sum(len(h["ops"]) for h in hs), "oracle": which}
        res.samples = [{"cfg": hs[0]["cfg"], "nf": hs[0]["nf"], "insertions": len(hs[0]["ops"])}]
        return res
    suite.__name__ = f"suite_tiny_long_{which}"
    return suite


# ---------------------------------------------------------------- search on break
def search_hist(which):
    """search function for property `which` (a key of oracles_hist.ORACLES)"""
    def search(seed, tier, failures):
        cands = []
        for kind, d in failures:
            if isinstance(d, dict) and "history" in d:
                cands.append(d["history"])
        cands += gen_exact_boundary(seed + 1, "thorough") + gen_merge_boundary(seed + 1, "thorough") \
            + gen_switch(seed + 1, 150) + gen_refine_twice(seed + 1, 120) + gen_seq_refine(seed + 1, 150) \
            + gen_bf_change(seed + 1, 150) + gen_shuffled_big(seed + 1, 12)
        if which == "C08":
            cands += gen_tiny_long(seed + 1, 3000)
        cands += gen_boundary(seed + 1, "quick")
        cands += gen_histories(seed + 1, 150 if tier == "quick" else 1500, max_ops=10, max_rows=24)
        for h in cands:
            try:
                v = oracles_hist.run_with_oracle(h, which)
            except Exception as e:      # an oracle crash on a broken tree is itself a finding
                v = (-1, f"oracle could not run: {type(e).__name__}: {e}")
            if v:
                hh = dict(h)
                if v[0] >= 0:
                    hh["ops"] = h["ops"][:v[0] + 1]
                return {"history": hh, "violation": v[1], "after_op": v[0]}
        return None
    return search


def replay_hist(which):
    def replay(payload):
        fi = payload.get("failing_input")
        if not fi:
            return True
        return oracles_hist.run_with_oracle(fi["history"], which) is None
    return replay


if __name__ == "__main__":
    seed = int(sys.argv[1]) if len(sys.argv) > 1 else 1
    tier = sys.argv[2] if len(sys.argv) > 2 else "quick"
    for s in (suite_hist_api, suite_tree_walk, suite_boundary, suite_exhaustive):
        t0 = time.time()
        r = s(seed, tier)
        print(r.name, "cases", r.cases, "nontrivial", r.nontrivial, "bad", len(r.bad),
              "time %.1f" % (time.time() - t0), json.dumps(r.stats)[:300])
        for b in r.bad[:2]:
            print(json.dumps(b)[:1500])
