"""Suite `bits` (C12, C13-py side): packing, popcount, Tanimoto, centroid, most-dissimilar,
complementary similarity and medoid — implementation vs Model/Sim.v, bit patterns."""
import itertools
import random
import warnings

import numpy as np

from common import cz, cnat, cfloat, clist, czl, cfpv, cbool, eval_cases
from pipeline import Result

warnings.filterwarnings("ignore")

PRE = "From BB Require Import Model.ObsBits.\nOpen Scope Z_scope.\n"


def misaligned(a: np.ndarray) -> np.ndarray:
    """A copy of `a` whose data pointer is 1 byte off 8-byte alignment."""
    flat = np.empty(a.size + 9, dtype=np.uint8)
    off = (-flat.ctypes.data) % 8 + 1
    v = flat[off:off + a.size].reshape(a.shape)
    v[...] = a
    assert v.ctypes.data % 8 == 1
    return v


LAYOUTS = ("fortran", "colstride", "rowstride", "vecstride")


def with_layout(X: np.ndarray, layout):
    """(matrix view, query-row maker): the same packed bytes in another memory layout.
    fortran: column-major; colstride: every second column of a twice as wide block; rowstride: every
    second row of a twice as tall block; vecstride: the matrix stays contiguous, single rows handed over
    as every second byte of a twice as long buffer"""
    def contiguous_row(v):
        return np.ascontiguousarray(v)
    if layout == "fortran":
        return np.asfortranarray(X), contiguous_row
    if layout == "colstride":
        wide = np.zeros((X.shape[0], 2 * X.shape[1]), dtype=np.uint8)
        wide[:, ::2] = X
        return wide[:, ::2], contiguous_row
    if layout == "rowstride":
        tall = np.zeros((2 * X.shape[0], X.shape[1]), dtype=np.uint8)
        tall[::2] = X
        return tall[::2], contiguous_row
    if layout == "vecstride":
        def strided_row(v):
            buf = np.zeros(2 * v.size, dtype=np.uint8)
            buf[::2] = v
            return buf[::2]
        return np.ascontiguousarray(X), strided_row
    return X, contiguous_row


def impl_obs(rows, nf, unaligned=False):
    import bblean
    import bblean.similarity as S
    from bblean import _py_similarity as P
    from bblean.utils import min_safe_uint
    A = np.array(rows, dtype=np.uint8).reshape(len(rows), nf)
    X = bblean.pack_fingerprints(A)
    qrow = None
    if unaligned is True:
        X = misaligned(X)
    elif isinstance(unaligned, str):
        # another memory layout of the same bytes; rows used as the OTHER operand keep a different layout
        X, qrow = with_layout(X, unaligned)
    back = bblean.unpack_fingerprints(X, nf)
    n = len(rows)
    ls = A.sum(axis=0, dtype=np.uint64)
    f1, f2, s1, s2 = S.jt_most_dissimilar_packed(X, nf)
    compl = S.jt_compl_isim(A, input_is_packed=False)
    med = S.jt_isim_medoid(A, input_is_packed=False, pack=False)[0]
    o = {
        "packed": [[int(b) for b in r] for r in X],
        "unpacked_ok": bool((back == A).all() and back.shape == A.shape),
        "popcounts": [int(v) for v in np.atleast_1d(P._popcount(X))],
        "sims_vec": [float(v) for v in S._jt_sim_arr_vec_packed(X, X[0] if qrow is None else qrow(X[0]))],
        "matrix": [[float(v) for v in r] for r in S.jt_sim_matrix_packed(X)],
        "cvals": [int(v) for v in S.centroid_from_sum(ls, n, pack=False)],
        "cvals_narrow": [int(v) for v in S.centroid_from_sum(
            A.sum(axis=0, dtype=min_safe_uint(n)), n, pack=False)],
        "cvals_public": [int(v) for v in S.centroid(A, input_is_packed=False, pack=False)],
        "cvals_public_packed": [int(v) for v in np.unpackbits(
            S.centroid(X, input_is_packed=True, n_features=nf, pack=True), count=nf)],
        "cpacked": [int(v) for v in S.centroid_from_sum(ls, n, pack=True)],
        "dissim": (int(f1), int(f2), [float(v) for v in s1], [float(v) for v in s2]),
        "compl": [float(v) for v in compl],
        "medoid": int(med),
    }
    # every route to the centroid agrees on the implementation itself
    if not (o["cvals"] == o["cvals_narrow"] == o["cvals_public"] == o["cvals_public_packed"]):
        o["cvals"] = [-1] + o["cvals_narrow"]      # surfaces as a centroid disagreement
    # symmetric / pairwise forms agree with the matrix on the implementation itself
    for i in range(n):
        for j in range(n):
            if i != j:
                v = float(S.jt_sim_packed(X[i], X[j] if qrow is None else qrow(X[j])))
                w = o["matrix"][i][j]
                if not (v == w or (v != v and w != w)):
                    o["unpacked_ok"] = False
    return o


def obs_term(o):
    d = o["dissim"]
    return ("(mkBitsObs {p} {u} {pc} {sv} {m} {cv} {cp} ({f1}, {f2}, {s1}, {s2}) {co} {me})".format(
        p=clist(o["packed"], czl), u=cbool(o["unpacked_ok"]), pc=czl(o["popcounts"]),
        sv=clist(o["sims_vec"], cfloat), m=clist(o["matrix"], lambda r: clist(r, cfloat)),
        cv=czl(o["cvals"]), cp=czl(o["cpacked"]), f1=cnat(d[0]), f2=cnat(d[1]),
        s1=clist(d[2], cfloat), s2=clist(d[3], cfloat), co=clist(o["compl"], cfloat),
        me=cnat(o["medoid"])))


def gen_cases(seed, tier):
    rng = random.Random(seed)
    cases = []
    # bounded-exhaustive tier
    maxw, maxr = (4, 2) if tier == "quick" else (6, 3)
    for nf in range(1, maxw + 1):
        allrows = list(itertools.product([0, 1], repeat=nf))
        for nr in range(1, maxr + 1):
            combos = list(itertools.product(allrows, repeat=nr))
            if len(combos) > 700:
                combos = rng.sample(combos, 700)
            for c in combos:
                cases.append(([list(r) for r in c], nf, False))
    # tall matrices: row counts around the uint8 boundaries of the column sums
    for nr in ([128, 255] if tier == "quick" else [127, 128, 129, 200, 254, 255, 256, 257, 300]):
        nf = rng.choice([3, 5, 6])
        col_dens = [rng.choice([0.0, 0.49, 0.5, 0.51, 0.9, 1.0]) for _ in range(nf)]
        rows = [[1 if rng.random() < d else 0 for d in col_dens] for _ in range(nr)]
        for j, d in enumerate(col_dens):            # exact ties and unanimous columns
            if d == 0.5:
                for i in range(nr):
                    rows[i][j] = 1 if i < (nr + 1) // 2 else 0
            if d == 1.0:
                for i in range(nr):
                    rows[i][j] = 1
        cases.append((rows, nf, False))
    n_rand = 250 if tier == "quick" else 4000
    widths = [1, 2, 3, 5, 7, 8, 9, 15, 16, 17, 31, 33, 63, 64, 65, 100, 127, 128, 129, 192,
              200, 256, 511, 512, 513, 1024, 2048, 4096]
    for _ in range(n_rand):
        nf = rng.choice(widths) if rng.random() < 0.7 else rng.randint(1, 300)
        if tier == "quick" and nf > 600 and rng.random() < 0.7:
            nf = rng.randint(1, 130)
        nr = rng.randint(1, 6)
        dens = rng.choice([0.0, 0.02, 0.2, 0.5, 0.8, 1.0])
        rows = []
        for _ in range(nr):
            r = rng.random()
            if r < 0.1:
                rows.append([0] * nf)
            elif r < 0.2:
                rows.append([1] * nf)
            elif r < 0.3 and rows:
                rows.append(list(rows[-1]))
            else:
                rows.append([1 if rng.random() < dens else 0 for _ in range(nf)])
        cases.append((rows, nf, rng.random() < 0.5))
    # memory layouts: the same bytes column-major, column- / row-strided, or with a strided query row, at
    # widths on both sides of the 8-byte word size (the operands of one call then have DIFFERENT layouts)
    lrng = random.Random(seed + 77)
    for k in range(24 if tier == "quick" else 400):
        nf = lrng.choice([64, 64, 128, 192, 256, 8, 24, 40, 72, 100, 120, 2048])
        nr = lrng.randint(2, 5)
        dens = lrng.choice([0.1, 0.5, 0.9])
        rows = [[1 if lrng.random() < dens else 0 for _ in range(nf)] for _ in range(nr)]
        cases.append((rows, nf, LAYOUTS[k % len(LAYOUTS)]))
    return cases


NAMES = ["pack", "unpack", "popcount", "sim_arr_vec", "sim_matrix", "centroid_vals",
         "centroid_packed", "most_dissimilar", "compl_isim", "medoid"]


def suite_bits(seed, tier):
    r = Result("bits")
    cases = gen_cases(seed, tier)
    terms = []
    obs = []
    for rows, nf, una in cases:
        o = impl_obs(rows, nf, una)
        obs.append(o)
        terms.append(f"check_bits {cnat(nf)} {clist(rows, cfpv)} {obs_term(o)}")
    out = eval_cases("bits", PRE, terms, shard=200)
    r.cases = len(cases)
    seen = set()
    for (rows, nf, una), o, res in zip(cases, obs, out):
        key = (nf, tuple(map(tuple, rows)))
        if key not in seen and len(rows) >= 2 and any(any(x) for x in rows):
            r.nontrivial += 1
        seen.add(key)
        flags = [t.strip() for t in res.strip("[]").split(";")]
        if any(f != "true" for f in flags):
            which = [NAMES[i] for i, f in enumerate(flags) if f != "true"]
            r.bad.append({"suite": "bits", "rows": rows, "nf": nf, "unaligned": una,
                          "differs_in": which, "impl": o})
    r.stats = {"widths": sorted({nf for _, nf, _ in cases})[:40],
               "unaligned_cases": sum(1 for c in cases if c[2]),
               "exhaustive_small": "all rows<=%d x widths<=%d (sampled to 700 per shape)" % (
                   (2, 4) if tier == "quick" else (3, 6))}
    r.samples = [{"rows": cases[-1][0][:2], "nf": cases[-1][1]}]
    return r


if __name__ == "__main__":
    import sys
    rr = suite_bits(int(sys.argv[1]) if len(sys.argv) > 1 else 1, sys.argv[2] if len(sys.argv) > 2 else "quick")
    print(rr.cases, rr.nontrivial, len(rr.bad), rr.stats)
    for b in rr.bad[:3]:
        print(b)
