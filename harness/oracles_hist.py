"""Direct oracles of C01/C02/C03/C08/C09 evaluated on the live estimator after every
operation of a history (used by the search step and by the replay commands)."""
import warnings
from fractions import Fraction

import numpy as np

import hist

warnings.filterwarnings("ignore")


def min_bits(n):
    return 8 if n < 256 else 16 if n < 65536 else 32 if n < 2 ** 32 else 64


# ------------------------------------------------------------------ C01
def c01(bb, ctx):
    if not bb.is_init:
        return None if bb.num_fitted_fps == 0 else "not initialised but num_fitted != 0"
    cl = bb.get_cluster_mol_ids()
    flat = [i for c in cl for i in c]
    if sorted(flat) != sorted(ctx["labels"]):
        missing = sorted(set(ctx["labels"]) - set(flat))[:5]
        extra = sorted(set(flat) - set(ctx["labels"]))[:5]
        dup = sorted({i for i in flat if flat.count(i) > 1})[:5]
        return f"clusters are not a partition of the fitted labels: missing={missing} invented={extra} duplicated={dup}"
    if bb.num_fitted_fps != len(ctx["labels"]):
        return f"num_fitted_fps={bb.num_fitted_fps} but {len(ctx['labels'])} labels are held"
    return None


# ------------------------------------------------------------------ C02
def c02(bb, ctx):
    if not bb.is_init:
        return None
    data, nf = ctx["data"], ctx["nf"]
    out = bb.get_centroids_mol_ids(packed=False)
    outp = bb.get_centroids_mol_ids(packed=True)
    bfs = bb._get_leaf_bfs(sort=True)
    for k, (s, ids, cu, cp) in enumerate(zip(bfs, out["mol_ids"], out["centroids"], outp["centroids"])):
        if list(s.mol_indices) != list(ids):
            return f"cluster {k}: member list and centroid list come from different traversals"
        n = len(ids)
        if s.n_samples != n:
            return f"cluster {k}: stored count {s.n_samples} != {n} members"
        if any(i not in data for i in ids):
            continue
        true = np.sum([data[i] for i in ids], axis=0, dtype=np.int64) if n else np.zeros(nf, dtype=np.int64)
        if [int(v) for v in s.linear_sum] != [int(v) for v in true]:
            return f"cluster {k} (size {n}): stored per-bit sums differ from the column sums of its members"
        maj = [(1 if 2 * int(v) >= n else 0) for v in true] if n > 1 else [int(v) for v in true]
        if [int(v) for v in cu] != maj:
            return f"cluster {k} (size {n}): reported centroid is not the majority vote of its members"
        if [int(v) for v in np.unpackbits(cp, count=nf)] != maj:
            return f"cluster {k} (size {n}): packed centroid is not the majority vote of its members"
        if s._buffer.dtype.itemsize * 8 != min_bits(n):
            return f"cluster {k} (size {n}): counters kept in uint{s._buffer.dtype.itemsize * 8}"
    return None


# ------------------------------------------------------------------ C03
def exact_isim(ks, n):
    num = sum(k * (k - 1) // 2 for k in ks)
    den = num + sum(k * (n - k) for k in ks)
    return Fraction(num, den) if den else Fraction(1)


def exact_rcompl(ks, n):
    c = [1 if 2 * k >= n else 0 for k in ks]
    e1 = exact_isim([k + b for k, b in zip(ks, c)], n + 1)
    return (e1 * (n + 1) - exact_isim(ks, n) * (n - 1)) / 2


def c03(bb, ctx):
    """every cluster with >= 2 members meets the bound of a pair that was in force during
    the operation in which it last grew (its member set last changed)"""
    if not bb.is_init:
        ctx["pair_of"] = {}
        return None
    data = ctx["data"]
    old = ctx.setdefault("pair_of", {})
    new = {}
    for ids in bb.get_cluster_mol_ids():
        key = frozenset(ids)
        new[key] = old.get(key, list(ctx["op_pairs"]))
    ctx["pair_of"] = new
    for key, pairs in new.items():
        ids = sorted(key)
        n = len(ids)
        if n < 2 or any(i not in data for i in ids):
            continue
        ks = [int(v) for v in np.sum([data[i] for i in ids], axis=0, dtype=np.int64)]
        d, rc = exact_isim(ks, n), exact_rcompl(ks, n)
        ok = False
        for crit, thr in pairs:
            if crit == "never-merge":
                continue
            val = rc if "radius" in crit else d
            if val >= Fraction(thr) - Fraction(1, 10 ** 9):
                ok = True
                break
        if not ok:
            return (f"cluster {ids[:8]} (size {n}): iSIM={float(d):.6f}, radius complement={float(rc):.6f} "
                    f"meets none of the pairs in force when it last grew {pairs[:4]}")
    return None


# ------------------------------------------------------------------ C08
def c08(bb, ctx):
    root = bb._root
    if root is None:
        return None
    nf = root.n_features
    leaves_chain = list(bb._get_leaves())
    reach = []
    problems = []

    def node(nd, depth, is_root):
        subs = nd._subclusters
        bf = nd._packed_centroids_buf.shape[0] - 1
        if len(subs) > bf:
            problems.append(f"node with {len(subs)} entries > branching factor {bf}")
        if not is_root and len(subs) == 0:
            problems.append("empty non-root node")
        for i, s in enumerate(subs):
            if not np.array_equal(nd._packed_centroids_buf[i], s.packed_centroid):
                problems.append("similarity-search cache row differs from the entry's centroid")
            n = int(s._buffer[-1])
            if s._buffer.dtype.itemsize * 8 != min_bits(n):
                problems.append(f"entry with count {n} keeps counters in uint{s._buffer.dtype.itemsize * 8}")
            if n > 1:
                maj = [(1 if 2 * int(v) >= n else 0) for v in s._buffer[:-1]]
                if np.unpackbits(s.packed_centroid, count=nf).tolist() != maj:
                    problems.append("entry centroid is not the majority vote of its sums")
        if nd._prev_leaf is not None:
            reach.append(nd)
            return depth, [sum(int(s._buffer[-1]) for s in subs),
                           np.sum([s._buffer[:-1].astype(np.int64) for s in subs], axis=0) if subs else np.zeros(nf, dtype=np.int64),
                           sorted(i for s in subs for i in s.mol_indices)]
        depths = set()
        tot_n, tot_ls, tot_ids = 0, np.zeros(nf, dtype=np.int64), []
        for s in subs:
            if s.child is None:
                problems.append("inner entry without child")
                continue
            d, (cn, cls, cids) = node(s.child, depth + 1, False)
            depths.add(d)
            if int(s._buffer[-1]) != cn:
                problems.append(f"inner entry count {int(s._buffer[-1])} != total {cn} of the node beneath it")
            if [int(v) for v in s._buffer[:-1]] != [int(v) for v in cls]:
                problems.append("inner entry per-bit sums differ from the totals of the node beneath it")
            if sorted(s.mol_indices) != cids:
                problems.append("inner entry member labels differ from those of the node beneath it")
            tot_n += cn
            tot_ls = tot_ls + cls
            tot_ids += cids
        if len(depths) > 1:
            problems.append(f"leaves at different depths {sorted(depths)}")
        return (depths.pop() if depths else depth), [tot_n, tot_ls, sorted(tot_ids)]

    node(root, 0, True)
    if len({id(l) for l in leaves_chain}) != len(leaves_chain):
        problems.append("a leaf occurs twice in the leaf sequence")
    if {id(l) for l in leaves_chain} != {id(l) for l in reach}:
        problems.append("leaf sequence and leaves reachable from the root differ")
    return problems[0] if problems else None


# ------------------------------------------------------------------ C09
def c09(bb, ctx):
    """ctx['before'] = clusters before the op (for refine/recluster ops), ctx['op']"""
    op = ctx["op"]
    before = ctx.get("before")
    if before is None or op["op"] not in ("recluster", "refine") or not bb.is_init or not ctx["ok"]:
        return None
    after = bb.get_cluster_mol_ids()
    where = {i: k for k, c in enumerate(after) for i in c}
    allowed = []
    if op["op"] == "refine" and op["n_largest"] > 0:
        allowed = before[:op["n_largest"]]
    for k, c in enumerate(before):
        lost = [i for i in c if i not in where]
        if lost:
            return (f"{op['op']}: members {lost[:8]} of cluster {c[:8]} (size {len(c)}) are in no cluster "
                    f"afterwards - the cluster did not re-enter the tree")
        if len({where.get(i) for i in c}) > 1:
            # size-ties: any n clusters of the n largest sizes may have been chosen
            if op["op"] == "refine" and op["n_largest"] > 0:
                # (sizes sorted here: the order in which the estimator lists its clusters is not trusted)
                nth = sorted((len(b) for b in before), reverse=True)[min(op["n_largest"], len(before)) - 1]
                broken = [b for b in before if len({where.get(i) for i in b}) > 1]
                if len(broken) <= op["n_largest"] and all(len(b) >= nth for b in broken):
                    continue
            return (f"{op['op']} separated members of cluster {c[:8]} (size {len(c)}), which was not one "
                    f"of the clusters it may break up")
    return None


ORACLES = {"C01": c01, "C02": c02, "C03": c03, "C08": c08, "C09": c09}


def run_with_oracle(h, which):
    """Execute history h on the implementation, evaluating oracle `which` after every op.
    Returns (index, text) of the first violation or None."""
    import bblean.bitbirch as bbm
    bbm._global_merge_accept = None
    bb = hist.make_bb(h["cfg"])
    data = {}
    ctx = {"data": data, "nf": h["nf"], "labels": [], "pairs": [(h["cfg"]["crit"], h["cfg"]["thr"])]}
    fn = ORACLES[which]
    for k, op in enumerate(h["ops"]):
        ctx["op"] = op
        ctx["before"] = bb.get_cluster_mol_ids() if bb.is_init else None
        op_pairs = [(bb.merge_criterion, bb.threshold)]
        if op["op"] == "recluster":
            t = bb.threshold
            op_pairs = []
            for _ in range(op["iters"]):
                t = t + op["extra"]
                op_pairs.append((bb.merge_criterion, t))
        ok, extra = hist.apply_op(bb, op, data, h["nf"])
        ctx["ok"] = ok
        ctx["labels"] = sorted(data.keys()) if bb.is_init else []
        ctx["op_pairs"] = op_pairs
        v = fn(bb, ctx)
        if v:
            return k, v
    return None
