"""Suite `config` (C17): constructor / set_merge / property setters on the real BitBirch
vs Model/Config.v after every call: criterion name, tolerance, threshold, branching factor
and accept/reject behaviour on probe arguments."""
import random
import warnings

import numpy as np

from common import cz, cfloat, clist, czl, cbool, copt, eval_cases
from pipeline import Result
import hist

warnings.filterwarnings("ignore")
NAMES = {"radius": "NRadius", "diameter": "NDiameter", "tolerance-legacy": "NTolLegacy",
         "tolerance-diameter": "NTolDiameter", "tolerance-radius": "NTolRadius",
         "never-merge": "NNever"}
PROBES = [([2, 2, 0, 1], 2, [1, 1, 0, 1], [1, 1, 0, 0], 1, 1),
          ([3, 1, 2, 0], 3, [2, 1, 1, 0], [1, 0, 1, 0], 2, 1),
          ([5, 4, 1, 3, 0, 2], 6, [4, 4, 0, 3, 0, 1], [1, 0, 1, 0, 0, 1], 5, 1),
          ([1, 1, 1, 1], 2, [1, 1, 0, 0], [0, 0, 1, 1], 1, 1),
          # the merged statistic drops by 0.25 / 0.2 (tolerance 0.3) and by 0.167 / 0.17 (tolerance 0.2):
          # inside the gap between the adaptive slack tol*(exp(-n/1000) - 1/e) and the non-adaptive slack tol
          ([0, 1, 2, 2], 3, [0, 0, 1, 2], [0, 1, 1, 0], 2, 1),
          ([0, 1, 2, 4], 4, [0, 0, 2, 3], [0, 1, 0, 1], 3, 1)]


def mk_obj(name, tol):
    import bblean._merges as M
    t = 0.05 if tol is None else tol
    return {"radius": lambda: M.RadiusMerge(), "diameter": lambda: M.DiameterMerge(),
            "tolerance-legacy": lambda: M.ToleranceMerge(t),
            "tolerance-diameter": lambda: M.ToleranceDiameterMerge(t),
            "tolerance-radius": lambda: M.ToleranceRadiusMerge(t),
            "never-merge": lambda: M.NeverMerge(t)}[name]()


def gen_arg(rng):
    """(kind, name, objtol): criterion argument"""
    r = rng.random()
    if r < 0.25:
        return ("none", None, None)
    name = rng.choice(hist.CRITS + ["bogus"]) if r < 0.7 else rng.choice(hist.CRITS)
    if r < 0.7:
        return ("name", name, None)
    if r < 0.8 and name in ("tolerance-diameter", "tolerance-radius"):
        # an object that carries a builtin NAME but not the builtin hyper-parameters
        return ("objna", name, rng.choice([0.3, 0.2, 0.05]))
    return ("obj", name, rng.choice([0.0, 0.3, 0.05]))


def arg_term(a):
    kind, name, ot = a
    if kind == "none":
        return "ANone"
    if kind == "name":
        return f"(AName {NAMES.get(name, 'NUnknown')})"
    if kind == "objna":
        ctor = {"tolerance-diameter": "CTolDiameter", "tolerance-radius": "CTolRadius"}[name]
        return f"(AObj ({ctor} {cfloat(ot)} 0%float 0%float))"
    return f"(AObj {hist.crit_term(name, ot)})"


def arg_value(a):
    kind, name, ot = a
    if kind == "none":
        return None
    if kind == "name":
        return name
    if kind == "objna":
        import bblean._merges as M
        return {"tolerance-diameter": M.ToleranceDiameterMerge,
                "tolerance-radius": M.ToleranceRadiusMerge}[name](ot, adaptive=False)
    return mk_obj(name, ot)


def observe(bb, ok):
    fn = bb._merge_accept_fn
    pr = []
    for nl, nn, ol, ml, on, mn in PROBES:
        pr.append(bool(fn(bb.threshold, np.array(nl, dtype=np.uint8), nn, np.array(ol, dtype=np.uint8),
                          np.array(ml, dtype=np.uint8), on, mn)))
    tol = bb.tolerance
    return {"ok": ok, "name": bb.merge_criterion, "tol": None if tol is None else float(tol),
            "thr": float(bb.threshold), "bf": int(bb.branching_factor), "probes": pr,
            "repr": repr(bb)}


def obs_term(o):
    return (f"(mkCobs {cbool(o['ok'])} {NAMES.get(o['name'], 'NUnknown')} {copt(o['tol'], cfloat)} "
            f"{cfloat(o['thr'])} {cz(o['bf'])} {clist(o['probes'], cbool)})")


def suite_config(seed, tier):
    import bblean.bitbirch as bbm
    rng = random.Random(seed)
    r = Result("config")
    n_cases = 300 if tier == "quick" else 8000
    terms, meta = [], []
    tols = [None, None, 0.0, 0.05, 0.2, 1.0]
    for _ in range(n_cases):
        bbm._global_merge_accept = None
        a0 = gen_arg(rng)
        tol0 = rng.choice(tols)
        thr0 = rng.choice([0.3, 0.5, 0.65, 0.9])
        bf0 = rng.choice([2, 5, 50])
        kw = {"threshold": thr0, "branching_factor": bf0}
        if a0[0] != "none" or rng.random() < 0.5:
            kw["merge_criterion"] = arg_value(a0)
        if tol0 is not None:
            kw["tolerance"] = tol0
        log = [("ctor", a0, tol0, thr0, bf0)]
        try:
            bb = bbm.BitBirch(**kw)
            e0 = observe(bb, True)
        except ValueError:
            bb, e0 = None, None
        steps = []
        if bb is not None:
            last_na = a0[1] if a0[0] == "objna" else None
            for _ in range(rng.randint(0, 6)):
                k = rng.random()
                if last_na is not None and k < 0.5:
                    # re-select by NAME the criterion whose name a non-builtin object carries
                    n = last_na
                    last_na = None
                    op = f"(CSetCritProp {NAMES.get(n, 'NUnknown')})"
                    call = lambda: setattr(bb, "merge_criterion", n)
                    log.append(("merge_criterion=", n))
                    try:
                        call()
                        ok = True
                    except ValueError:
                        ok = False
                    o = observe(bb, ok)
                    steps.append(f"({op}, {obs_term(o)})")
                    continue
                if k < 0.55:
                    a = gen_arg(rng)
                    tol = rng.choice(tols)
                    thr = rng.choice([None, None, 0.4, 0.8])
                    bf = rng.choice([None, None, 3, 7])
                    last_na = a[1] if a[0] == "objna" else None
                    op = f"(CSet {arg_term(a)} {copt(tol, cfloat)} {copt(thr, cfloat)} {copt(bf, cz)})"
                    call = lambda: bb.set_merge(arg_value(a), tolerance=tol, threshold=thr,
                                                branching_factor=bf)
                    log.append(("set_merge", a, tol, thr, bf))
                elif k < 0.7:
                    n = rng.choice(hist.CRITS + ["bogus"])
                    op = f"(CSetCritProp {NAMES.get(n, 'NUnknown')})"
                    call = lambda: setattr(bb, "merge_criterion", n)
                    log.append(("merge_criterion=", n))
                elif k < 0.85:
                    t = rng.choice([0.0, 0.1, 0.7])
                    op = f"(CSetTolProp {cfloat(t)})"
                    call = lambda: setattr(bb, "tolerance", t)
                    log.append(("tolerance=", t))
                else:
                    t = rng.choice([0.2, 0.55])
                    op = f"(CSetThrAttr {cfloat(t)})"
                    call = lambda: setattr(bb, "threshold", t)
                    log.append(("threshold=", t))
                try:
                    call()
                    ok = True
                except ValueError:
                    ok = False
                o = observe(bb, ok)
                steps.append(f"({op}, {obs_term(o)})")
                # the repr must name the criterion and (if any) the tolerance it reports
                if (f"merge_criterion='{o['name']}'" not in o["repr"]) or \
                   (o["tol"] is not None and f"tolerance={bb.tolerance}" not in o["repr"]):
                    r.bad.append({"suite": "config", "what": "repr disagrees with getters", "log": log,
                                  "repr": o["repr"]})
        a0t = arg_term(a0) if "merge_criterion" in kw else "ANone"
        terms.append(f"check_cfg fexp {cfloat(thr0)} {cz(bf0)} {a0t} {copt(tol0, cfloat)} "
                     f"{copt(e0, obs_term)} {clist(steps)}")
        meta.append(log)
    pre = hist.exp_preamble(10).replace("Model.Obs.", "Model.Obs Model.ObsCfg.")
    out = eval_cases("config", pre, terms, shard=300)
    r.cases = len(terms)
    r.nontrivial = len({str(m) for m in meta if len(m) >= 2})
    for m, o in zip(meta, out):
        k = int(o.strip().strip("()"))
        if k != -1:
            r.bad.append({"suite": "config", "what": "model differs", "calls": m[:k + 1],
                          "first_mismatch_at_call": k})
    r.stats = {"ctor_rejected": sum(1 for t in terms if " None [" in t or " None []" in t),
               "calls": sum(len(m) for m in meta)}
    r.samples = [meta[0]]
    return r


# ---------------------------------------------------------------- reset behaves like a fresh estimator
def reset_violation(case):
    """fit, re-configure, reset, re-configure, fit again: the clusters, centroids and the whole tree must be
    those of an estimator freshly constructed with the configuration the reset one reports"""
    import bblean.bitbirch as bbm
    bbm._global_merge_accept = None
    nf = case["nf"]
    bb = hist.make_bb(case["cfg"])
    data = {}
    for op in case["before"]:
        hist.apply_op(bb, op, data, nf)
    bb.reset()
    if bb.is_init or bb.num_fitted_fps != 0:
        return "reset kept data"
    data = {}
    for op in case["between"]:
        hist.apply_op(bb, op, data, nf)
    kw = dict(threshold=bb.threshold, branching_factor=bb.branching_factor, merge_criterion=bb.merge_criterion)
    if bb.tolerance is not None:
        kw["tolerance"] = bb.tolerance
    fresh = bbm.BitBirch(**kw)
    d2 = {}
    for op in case["after"]:
        ok1, _ = hist.apply_op(bb, op, data, nf)
        ok2, _ = hist.apply_op(fresh, op, d2, nf)
        o1, o2 = hist.observe(bb, ok1, True), hist.observe(fresh, ok2, True)
        if o1 != o2:
            keys = [k for k in o1 if o1[k] != o2[k]]
            return (f"after reset the estimator does not behave like one freshly constructed with the configuration "
                    f"it reports ({kw}): {keys} differ after {op['op']}; e.g. cluster sizes "
                    f"{[len(c) for c in o1['sorted']][:8]} vs {[len(c) for c in o2['sorted']][:8]}")
    return None


def gen_reset_case(rng):
    nf = rng.choice([5, 8, 16])
    cfg = hist.gen_cfg(rng)
    protos = None

    def fit(n):
        nonlocal protos
        rows, protos = hist.gen_fps(rng, n, nf, protos)
        return {"op": "fit", "rows": rows, "labels": None, "form": rng.choice(["unpacked-array", "packed-array"]),
                "bad_at": None}

    def setcfg():
        c = hist.gen_cfg(rng)
        op = {"op": "setcfg", "crit": None, "tol": None, "thr": None, "bf": None}
        if rng.random() < 0.5:
            op["crit"], op["tol"] = c["crit"], c["tol"]
        if rng.random() < 0.5:
            op["thr"] = c["thr"]
        if rng.random() < 0.6:
            op["bf"] = rng.choice([2, 3, 4, 5, 10, 50])
        return op
    # the first fit is small (a root that never split) or large (a deep tree)
    before = [fit(rng.choice([1, 2, 3, 5, 30]))] + [setcfg() for _ in range(rng.randint(0, 2))]
    if rng.random() < 0.3:
        before.append({"op": "recluster", "iters": 1, "extra": 0.0, "shuffle": False, "seed": 0, "stop_early": False})
    between = [setcfg() for _ in range(rng.randint(0, 2))]
    protos = None
    after = [fit(rng.randint(5, 60))] + ([fit(rng.randint(1, 20))] if rng.random() < 0.4 else [])
    return {"nf": nf, "cfg": cfg, "before": before, "between": between, "after": after}


def suite_reset(seed, tier):
    rng = random.Random(seed + 23)
    r = Result("reset")
    for _ in range(200 if tier == "quick" else 4000):
        case = gen_reset_case(rng)
        r.cases += 1
        try:
            v = reset_violation(case)
        except Exception as e:
            v = f"case could not run: {type(e).__name__}: {e}"[:240]
        if v:
            r.bad.append({"suite": "reset", "what": v, "case": case})
    r.nontrivial = r.cases
    r.stats = {"cases": r.cases}
    r.samples = [{"ops_before_reset": ["fit", "setcfg*", "recluster?"], "after": ["setcfg*", "fit+"]}]
    return r


# ---------------------------------------------------------------- direct oracle (search)
def c17_violation(rng):
    """one random probe of the C17 statements on the real code; returns text or None"""
    import bblean.bitbirch as bbm
    bbm._global_merge_accept = None
    a = gen_arg(rng)
    while a[0] == "none":
        a = gen_arg(rng)
    tol = rng.choice([None, 0.0, 0.2])
    desc = f"criterion={a}, tolerance={tol}"
    def ctor():
        kw = {"merge_criterion": arg_value(a)}
        if tol is not None:
            kw["tolerance"] = tol
        return bbm.BitBirch(**kw)
    def setm(bb):
        bb.set_merge(arg_value(a), tolerance=tol)
    try:
        b1 = ctor()
        ok1 = True
    except ValueError:
        ok1 = False
    b2 = bbm.BitBirch()
    try:
        setm(b2)
        ok2 = True
    except ValueError:
        ok2 = False
    if ok1 != ok2:
        return f"constructor {'accepts' if ok1 else 'rejects'} but set_merge {'accepts' if ok2 else 'rejects'}: {desc}"
    if ok1:
        o1, o2 = observe(b1, True), observe(b2, True)
        if (o1["name"], o1["tol"], o1["probes"]) != (o2["name"], o2["tol"], o2["probes"]):
            return f"constructor and set_merge routes behave differently for {desc}: {o1} vs {o2}"
    # frame: set_merge(threshold=..) leaves criterion and tolerance alone
    b3 = bbm.BitBirch(merge_criterion=rng.choice(hist.CRITS), tolerance=0.2, branching_factor=7)
    before = observe(b3, True)
    b3.set_merge(threshold=0.41)
    after = observe(b3, True)
    if (before["name"], before["tol"], before["bf"]) != (after["name"], after["tol"], after["bf"]) or after["thr"] != 0.41:
        return f"set_merge(threshold=0.41) changed more than the threshold: {before} -> {after}"
    b3.set_merge(branching_factor=9)
    a2 = observe(b3, True)
    if (a2["name"], a2["tol"], a2["thr"]) != (after["name"], after["tol"], after["thr"]) or a2["bf"] != 9:
        return f"set_merge(branching_factor=9) changed more than the branching factor: {after} -> {a2}"
    # reset keeps the configuration and empties the tree
    X = np.array([[1, 0, 1, 0], [1, 1, 1, 0], [0, 0, 0, 1]], dtype=np.uint8)
    b3.fit(X, input_is_packed=False)
    cfg_before = observe(b3, True)
    b3.reset()
    if observe(b3, True) != cfg_before or b3.num_fitted_fps != 0 or b3.is_init:
        return "reset changed the merge configuration or kept data"
    b3.fit(X, input_is_packed=False)
    fresh = bbm.BitBirch(threshold=b3.threshold, branching_factor=b3.branching_factor,
                         merge_criterion=b3.merge_criterion,
                         **({"tolerance": b3.tolerance} if b3.tolerance is not None else {}))
    fresh.fit(X, input_is_packed=False)
    if fresh.get_cluster_mol_ids() != b3.get_cluster_mol_ids():
        return "after reset the estimator does not behave like a freshly constructed one"
    return None


def log_violation(log):
    """replay a recorded constructor/set_merge/setter sequence on the real code; afterwards the
    estimator must accept and reject exactly like one freshly constructed from the criterion,
    tolerance and threshold it reports"""
    import bblean.bitbirch as bbm
    bbm._global_merge_accept = None
    _, a0, tol0, thr0, bf0 = log[0]
    kw = {"threshold": thr0, "branching_factor": bf0}
    if a0[0] != "none":
        kw["merge_criterion"] = arg_value(tuple(a0))
    if tol0 is not None:
        kw["tolerance"] = tol0
    try:
        bb = bbm.BitBirch(**kw)
    except ValueError:
        return None
    for i, c in enumerate(log[1:] + [None]):
        o = observe(bb, True)
        kw2 = {"threshold": o["thr"], "branching_factor": o["bf"], "merge_criterion": o["name"]}
        if o["tol"] is not None:
            kw2["tolerance"] = o["tol"]
        try:
            fresh = observe(bbm.BitBirch(**kw2), True)
        except ValueError:
            fresh = None
        if fresh is not None and fresh["probes"] != o["probes"]:
            return (f"after {log[:i + 1]} the estimator reports criterion={o['name']} tolerance={o['tol']} "
                    f"threshold={o['thr']} but accepts/rejects differently from a freshly constructed "
                    f"estimator with these values (probe results {o['probes']} vs {fresh['probes']})")
        if c is None:
            break
        before = o
        try:
            if c[0] == "set_merge":
                bb.set_merge(arg_value(tuple(c[1])), tolerance=c[2], threshold=c[3], branching_factor=c[4])
            elif c[0] == "merge_criterion=":
                bb.merge_criterion = c[1]
            elif c[0] == "tolerance=":
                bb.tolerance = c[1]
            elif c[0] == "threshold=":
                bb.threshold = c[1]
        except ValueError:
            continue
        # frame law: a call that does not name a parameter leaves it untouched — in particular a
        # previously chosen tolerance survives a criterion change to a criterion that has one
        after = observe(bb, True)
        gave_tol = (c[0] == "set_merge" and c[2] is not None) or c[0] == "tolerance="
        gave_obj = c[0] == "set_merge" and c[1] and c[1][0] == "obj"
        if not gave_tol and not gave_obj and before["tol"] is not None and after["tol"] is not None \
                and after["tol"] != before["tol"]:
            return (f"after {log[:i + 2]}: the call gave no tolerance but the tolerance changed from "
                    f"{before['tol']} to {after['tol']}")
        gave_thr = (c[0] == "set_merge" and c[3] is not None) or c[0] == "threshold="
        if not gave_thr and after["thr"] != before["thr"]:
            return f"after {log[:i + 2]}: the call gave no threshold but it changed from {before['thr']} to {after['thr']}"
        if not (c[0] == "set_merge" and c[4] is not None) and after["bf"] != before["bf"]:
            return f"after {log[:i + 2]}: the branching factor changed from {before['bf']} to {after['bf']}"
    return None


def gen_log(rng):
    tols = [None, None, 0.0, 0.05, 0.2, 1.0]
    log = [("ctor", gen_arg(rng), rng.choice(tols), rng.choice([0.3, 0.5, 0.65, 0.9]), rng.choice([2, 5, 50]))]
    for _ in range(rng.randint(0, 6)):
        k = rng.random()
        prev = log[-1]
        if prev[0] in ("ctor", "set_merge") and prev[1][0] == "objna" and k < 0.5:
            log.append(("merge_criterion=", prev[1][1]))
            continue
        if k < 0.55:
            log.append(("set_merge", gen_arg(rng), rng.choice(tols), rng.choice([None, None, 0.4, 0.8]),
                        rng.choice([None, None, 3, 7])))
        elif k < 0.7:
            log.append(("merge_criterion=", rng.choice(hist.CRITS + ["bogus"])))
        elif k < 0.85:
            log.append(("tolerance=", rng.choice([0.0, 0.1, 0.7])))
        else:
            log.append(("threshold=", rng.choice([0.2, 0.55])))
    return log


def search_c17(seed, tier, failures):
    for kind, d in failures:
        if isinstance(d, dict) and "case" in d and d.get("suite") == "reset":
            v = reset_violation(d["case"])
            if v:
                return {"violation": v, "reset_case": d["case"]}
    for kind, d in failures:
        if isinstance(d, dict) and "calls" in d:
            v = log_violation(d["calls"])
            if v:
                return {"violation": v, "calls": d["calls"]}
    lrng = random.Random(seed + 17)
    for _ in range(1500 if tier == "quick" else 15000):
        log = gen_log(lrng)
        v = log_violation(log)
        if v:
            return {"violation": v, "calls": [list(c) for c in log]}
    rrng = random.Random(seed + 29)
    for _ in range(300):
        case = gen_reset_case(rrng)
        v = reset_violation(case)
        if v:
            return {"violation": v, "reset_case": case}
    rng = random.Random(seed + 3)
    for _ in range(400 if tier == "quick" else 4000):
        st = rng.getstate()
        v = c17_violation(rng)
        if v:
            return {"violation": v, "rng_seed": seed + 3}
    return None


def replay_c17(payload):
    fi = payload.get("failing_input")
    if not fi:
        return True
    if "reset_case" in fi:
        return reset_violation(fi["reset_case"]) is None
    if "calls" in fi:
        return log_violation(fi["calls"]) is None
    rng = random.Random(fi["rng_seed"])
    for _ in range(4000):
        if c17_violation(rng):
            return False
    return True


if __name__ == "__main__":
    import sys
    rr = suite_config(int(sys.argv[1]) if len(sys.argv) > 1 else 1, sys.argv[2] if len(sys.argv) > 2 else "quick")
    print(rr.name, rr.cases, rr.nontrivial, len(rr.bad), rr.stats)
    for b in rr.bad[:4]:
        print(b)
    print(search_c17(1, "quick", []))
