"""Suite `fps-cli` (C16): fingerprint-file utilities.
  file-seq   _get_fingerprints_from_file_seq / _FingerprintFileSequence vs Model/FpsUtil.v
  batches    bblean.utils.batched, _iter_ranges_and_smiles_batches vs the model
  fps-cli    bb fps-split / fps-merge / fps-shuffle / fps-info / fps-from-smiles through
             typer's CliRunner: direct checks of the C16 statement (content, order, names)
"""
import os
import random
import tempfile
import warnings
from pathlib import Path

import numpy as np

from common import cz, cnat, clist, czl, copt, eval_cases
from pipeline import Result

warnings.filterwarnings("ignore")
PRE = ("From BB Require Import Model.FpsUtil.\nFrom Coq Require Import String.\n"
       "Open Scope Z_scope.\nDefinition zll_eqb := list_eqb (list_eqb Z.eqb).\n")

SMILES_OK = ["CCO", "c1ccccc1", "CC(=O)O", "C1CC1", "CCN", "OCCO", "c1ccncc1", "CC(C)C", "CCCl",
             "O=C=O", "CS", "NCC(=O)O", "c1ccc2ccccc2c1", "CCOC", "C#N", "CC=O", "C1CCCCC1", "CBr"]
SMILES_BAD = ["xx", "N[N+](=O)(=O)=O", "C1CC", "c1ccccc"]


def cstr(s):
    return '"' + s + '"%string'


# ------------------------------------------------------------------ file sequence
def suite_file_seq(seed, tier):
    from bblean.fingerprints import _get_fingerprints_from_file_seq, _FingerprintFileSequence
    rng = random.Random(seed)
    r = Result("file-seq")
    terms, meta = [], []
    n_cases = 150 if tier == "quick" else 3000
    with tempfile.TemporaryDirectory(prefix="verif_fseq_") as tmp:
        for k in range(n_cases):
            nfiles = rng.randint(1, 5)
            sizes = [rng.choice([0, 1, 2, 3, 5, 8]) for _ in range(nfiles)]
            if sum(sizes) == 0:
                sizes[rng.randrange(nfiles)] = 3
            cols = rng.choice([1, 2, 4])
            files, rows_all, paths = [], [], []
            tot = 0
            for j, n in enumerate(sizes):
                A = np.arange(tot * cols, (tot + n) * cols, dtype=np.int64).reshape(n, cols) % 251
                A = A.astype(np.uint8)
                # (the same few paths are rewritten from case to case: what counts is the file as it is
                # on disk now, not as it was when the path was first seen)
                p = Path(tmp) / f"part-{j}.npy"
                np.save(p, A)
                paths.append(p)
                files.append(A.tolist())
                tot += n
            # sorted index lists with repeats and gaps; sometimes unsorted / out of range
            kind = rng.random()
            m = rng.randint(0, 8)
            idxs = sorted(rng.randrange(tot) for _ in range(m))
            if rng.random() < 0.5 and idxs:
                idxs = sorted(idxs + [rng.choice(idxs)] * rng.randint(1, 2))      # repeats
            if kind < 0.08 and len(set(idxs)) > 1:
                idxs = idxs[::-1]
            elif kind < 0.14:
                idxs = idxs + [tot + rng.randint(0, 2)]
            try:
                got = _get_fingerprints_from_file_seq(paths, idxs).tolist()
                got2 = _FingerprintFileSequence(paths)[idxs].tolist()
                if got != got2:
                    r.bad.append({"suite": "file-seq", "what": "__getitem__ differs from the function"})
            except (ValueError, IndexError):
                got = None
            # direct: same rows as indexing the concatenation
            if got is not None:
                cat = [row for f in files for row in f]
                exp = [cat[i] for i in idxs]
                if got != exp:
                    r.bad.append({"suite": "file-seq", "what": f"indexing the file sequence by {idxs} "
                                  f"returned rows other than those of the concatenation",
                                  "sizes": sizes, "idxs": idxs})
            terms.append(f"match file_seq_get {clist(files, lambda f: clist(f, czl))} {czl(idxs)} [], "
                         f"{copt(got, lambda g: clist(g, czl))} with "
                         f"| Some a, Some b => zll_eqb a b | None, None => true | _, _ => false end")
            meta.append({"sizes": sizes, "idxs": idxs, "cols": cols, "impl": got})
            for p in paths:
                os.unlink(p)
    out = eval_cases("fileseq", PRE, terms, shard=300)
    r.cases = len(terms)
    r.nontrivial = len({str((m["sizes"], m["idxs"])) for m in meta if len(m["idxs"]) >= 2})
    for m, o in zip(meta, out):
        if o.strip() != "true":
            r.bad.append({"suite": "file-seq", "what": "model differs", **m})
    r.stats = {"with_repeats": sum(1 for m in meta if len(set(m["idxs"])) < len(m["idxs"])),
               "rejected": sum(1 for m in meta if m["impl"] is None),
               "with_empty_files": sum(1 for m in meta if 0 in m["sizes"])}
    r.samples = [meta[0]]
    return r


# ------------------------------------------------------------------ batching
def suite_batches(seed, tier):
    from bblean.utils import batched
    from bblean.smiles import _iter_ranges_and_smiles_batches, _iter_idxs_and_smiles_batches
    rng = random.Random(seed + 3)
    r = Result("batches")
    terms, meta = [], []
    with tempfile.TemporaryDirectory(prefix="verif_bat_") as tmp:
        for k in range(120 if tier == "quick" else 2000):
            n_items = rng.randint(0, 23)
            n = rng.randint(1, 9)
            items = list(range(100, 100 + n_items))
            got = [list(b) for b in batched(items, n)]
            # through the smiles helpers: lines of one or two files
            cut = rng.randint(0, n_items)
            p1, p2 = Path(tmp) / f"a{k}.smi", Path(tmp) / f"b{k}.smi"
            p1.write_text("".join(f"{i}\n" for i in items[:cut]))
            p2.write_text("".join(f"{i}\n" for i in items[cut:]))
            rb = [((int(a), int(b)), [int(s) for s in batch])
                  for (a, b), batch in _iter_ranges_and_smiles_batches([p1, p2], n)]
            ib = [(int(i), [int(s) for s in batch]) for i, batch in _iter_idxs_and_smiles_batches([p1, p2], n)]
            os.unlink(p1)
            os.unlink(p2)
            flat = [x for b in got for x in b]
            if flat != items:
                r.bad.append({"suite": "batches", "what": "batched() lost or reordered items",
                              "n_items": n_items, "n": n})
            exp_r = clist(rb, lambda t: f"(({cz(t[0][0])}, {cz(t[0][1])}), {czl(t[1])})")
            exp_i = clist(ib, lambda t: f"({cz(t[0])}, {czl(t[1])})")
            terms.append(
                f"zll_eqb (batched {cnat(n)} {czl(items)}) {clist(got, czl)} && "
                f"list_eqb (fun a b => let '((x, y), l) := a in let '((u, v), m) := b in "
                f"(x =? u) && (y =? v) && list_eqb Z.eqb l m) (ranges_batches {cnat(n)} {czl(items)}) {exp_r} && "
                f"list_eqb (fun a b => (fst a =? fst b) && list_eqb Z.eqb (snd a) (snd b)) "
                f"(with_idxs 0 (batched {cnat(n)} {czl(items)})) {exp_i}")
            meta.append({"n_items": n_items, "n": n})
        # counting pass: the number of SMILES is the number of lines, whatever the file sizes (on both sides
        # of 64 KiB, 1 MiB, 2 MiB: block-wise readers), with or without a final newline, over several files
        from bblean.smiles import calc_num_smiles, iter_smiles_from_paths
        for kk in range(8 if tier == "quick" else 40):
            nfiles = rng.choice([1, 1, 2, 3])
            ps, want = [], 0
            for j in range(nfiles):
                target = rng.choice([100, 2 ** 16, 2 ** 20, 2 ** 20, 2 ** 21, 3 * 2 ** 20]) + rng.choice([-7, -1, 0, 1, 9, 4097])
                line = "C" * rng.choice([1, 7, 40, 79])
                n = max(1, target // (len(line) + 1))
                txt = (line + "\n") * n
                if rng.random() < 0.5:
                    txt = txt[:-1]                     # no trailing newline: the last line still counts
                pth = Path(tmp) / f"count-{kk}-{j}.smi"
                pth.write_text(txt)
                ps.append(pth)
                want += n
            got = calc_num_smiles(ps if nfiles > 1 or rng.random() < 0.5 else ps[0])
            it = sum(1 for _ in iter_smiles_from_paths(ps))
            if got != want or it != want:
                r.bad.append({"suite": "batches", "what": f"calc_num_smiles counts {got} SMILES (iteration yields {it}) "
                              f"in files that hold {want} lines", "file_sizes": [p_.stat().st_size for p_ in ps]})
            for p_ in ps:
                os.unlink(p_)
    out = eval_cases("batches", PRE, terms, shard=300)
    r.cases = len(terms)
    r.nontrivial = len({str(m) for m in meta if m["n_items"] > m["n"]})
    for m, o in zip(meta, out):
        if o.strip() != "true":
            r.bad.append({"suite": "batches", "what": "model differs", **m})
    r.samples = [meta[0]]
    return r


# ------------------------------------------------------------------ CLI utilities
def _invoke(args):
    from typer.testing import CliRunner
    from bblean.cli import app
    res = CliRunner().invoke(app, args)
    return res.exit_code, res.output, res.exception


def part_name(stem, digits, i):
    return f"{stem}.{str(i).zfill(digits)}.npy"


def suite_fps_cli(seed, tier):
    from bblean.fingerprints import fps_from_smiles
    rng = random.Random(seed + 5)
    r = Result("fps-cli")
    terms = []
    n_cases = 10 if tier == "quick" else 80
    cases = 0
    with tempfile.TemporaryDirectory(prefix="verif_fpscli_") as tmp:
        tmp = Path(tmp)
        # part counts on both sides of a digit boundary of the zero-padded index (9/10/11, 99/100/101),
        # with and without a trailing partial part
        boundary = [(21, "m", 2), (19, "m", 2), (20, "m", 2), (31, "m", 3), (105, "m", 10), (100, "m", 10),
                    (95, "m", 10), (10, "n", 10), (11, "n", 11), (23, "n", 10), (12, "n", 9), (202, "m", 2),
                    (199, "m", 2), (101, "n", 100)]
        if tier == "quick":
            boundary = boundary[:7] + [boundary[7 + seed % 7]]
        for k in range(n_cases + len(boundary)):
            d = tmp / f"k{k}"
            d.mkdir()
            forced = boundary[k - n_cases] if k >= n_cases else None
            n = forced[0] if forced else rng.randint(1, 40)
            # every integer dtype a fingerprint file may have (the property quantifies over dtypes): values
            # beyond 255, negative values, wide items
            dt = rng.choice([np.uint8, np.uint8, np.int8, np.uint16, np.int16, np.int64, np.uint32])
            info = np.iinfo(dt)
            A = np.random.default_rng(rng.randint(0, 2 ** 31)).integers(
                max(info.min, -300), min(info.max, 70000) + 1, (n, 4)).astype(dt)
            src = d / "fps.npy"
            np.save(src, A)
            # ---- split by parts / by max-fps, then merge
            if n >= 2:
                if (forced and forced[1] == "n") or (not forced and rng.random() < 0.5):
                    parts = forced[2] if forced else rng.randint(2, min(n, 12))
                    args = ["fps-split", str(src), "-o", str(d / "split"), "-n", str(parts)]
                    per = -(-n // parts)
                    digits = len(str(parts))
                else:
                    mx = forced[2] if forced else rng.randint(1, n)
                    args = ["fps-split", str(src), "-o", str(d / "split"), "-m", str(mx)]
                    per = mx
                    digits = len(str(-(-n // mx)))
                rc, out, exc = _invoke(args)
                cases += 1
                if rc != 0:
                    r.bad.append({"suite": "fps-cli", "what": f"fps-split failed rc={rc}: {exc!r}", "args": args[4:]})
                else:
                    files = sorted((d / "split").glob("*.npy"))
                    exp_names = [part_name("fps", digits, i) for i in range(-(-n // per))]
                    if [f.name for f in files] != exp_names:
                        r.bad.append({"suite": "fps-cli", "what": "split part names are not the zero-padded "
                                      "sequence in part order", "names": [f.name for f in files], "expected": exp_names})
                    cat = np.concatenate([np.load(f) for f in files])
                    if cat.tolist() != A.tolist() or cat.dtype != A.dtype:
                        r.bad.append({"suite": "fps-cli", "what": "concatenating the split parts in name order "
                                      "does not reproduce the file", "n": n, "args": args[4:]})
                    rc, out, exc = _invoke(["fps-merge", str(d / "split"), "-o", str(d / "merged")])
                    merged = np.load(d / "merged" / "fps.npy") if rc == 0 else None
                    if merged is None or merged.tolist() != A.tolist() or merged.dtype != A.dtype:
                        r.bad.append({"suite": "fps-cli", "what": "fps-merge of the split parts differs from "
                                      f"the original (dtype {A.dtype}"
                                      + ("" if merged is None else f", merged dtype {merged.dtype}") + ")",
                                      "n": n, "args": args[4:], "dtype": str(np.dtype(dt)), "rows": A.tolist()[:6]})
                    # model: names and order
                    terms.append("list_eqb String.eqb (map fst (split_parts \"fps\"%string "
                                 f"{cz(digits)} {cnat(per)} {czl(list(range(n)))})) "
                                 f"{clist([f.name for f in files], cstr)} && "
                                 f"list_eqb Z.eqb (merge_parts (split_parts \"fps\"%string {cz(digits)} "
                                 f"{cnat(per)} {czl(list(range(n)))})) {czl(list(range(n)))}")
            # ---- shuffle
            rc, out, exc = _invoke(["fps-shuffle", str(src), "-o", str(d / "sh"), "--seed", str(rng.randint(0, 99))])
            cases += 1
            sh = np.load(d / "sh" / "shuffled-fps.npy") if rc == 0 else None
            if sh is None or sorted(map(tuple, sh.tolist())) != sorted(map(tuple, A.tolist())) or sh.dtype != A.dtype:
                r.bad.append({"suite": "fps-cli", "what": "fps-shuffle does not preserve the multiset of rows", "n": n})
            # ---- info on file, dir, 1-D and float files
            np.save(d / "oned.npy", np.arange(5, dtype=np.uint8))
            np.save(d / "flt.npy", np.zeros((3, 4), dtype=np.float32))
            # ... and on files that are not fingerprint files at all: other dtypes (object, unicode, structured,
            # bool), other ranks (0-d, 3-d), and files that are not readable .npy files (wrong magic string,
            # empty, header cut short); valid but unusual ones (no rows, column-major, big-endian) must not be
            # flagged; and a directory holding all of them must be described file by file
            odd = d / "odd"
            odd.mkdir()
            invalid = {"obj.npy": np.array(["CCO", "c1ccccc1", "N"], dtype=object),
                       "uni.npy": np.array([["ab", "cd"]]), "struct.npy": np.zeros(3, dtype=[("a", "u1"), ("b", "u1")]),
                       "boolm.npy": np.zeros((3, 4), dtype=bool), "zerod.npy": np.array(7, dtype=np.uint8),
                       "threed.npy": np.zeros((2, 3, 4), dtype=np.uint8)}
            valid = {"norows.npy": np.zeros((0, 8), dtype=np.uint8),
                     "fort.npy": np.asfortranarray(np.ones((3, 8), dtype=np.uint8)),
                     "bigend.npy": np.ones((3, 8), dtype=">u2")}
            for nm, arr in {**invalid, **valid}.items():
                np.save(odd / nm, arr)
            whole = src.read_bytes()
            (odd / "text.npy").write_text("not a numpy file")
            (odd / "nothing.npy").write_bytes(b"")
            (odd / "cut.npy").write_bytes(whole[:30])
            unreadable = ("text.npy", "nothing.npy", "cut.npy")
            for target in [src, d, d / "oned.npy", d / "flt.npy", odd] + sorted(odd.iterdir()):
                rc, out, exc = _invoke(["fps-info", str(target)])
                cases += 1
                if rc != 0:
                    r.bad.append({"suite": "fps-cli", "what": f"fps-info failed on {target.name}: {exc!r}",
                                  "fps_info_target": target.name})
                elif (target.name in ("oned.npy", "flt.npy") or target.name in invalid or target.name in unreadable) \
                        and "Invalid" not in out:
                    r.bad.append({"suite": "fps-cli", "what": f"fps-info did not flag {target.name} as invalid",
                                  "fps_info_target": target.name})
                elif target.name in valid and "Invalid" in out:
                    r.bad.append({"suite": "fps-cli", "what": f"fps-info flagged the valid file {target.name} as invalid",
                                  "fps_info_target": target.name})
                elif target is odd and out.count("Invalid") != len(invalid) + len(unreadable):
                    r.bad.append({"suite": "fps-cli", "what": f"fps-info on a directory flagged {out.count('Invalid')} files "
                                  f"as invalid, {len(invalid) + len(unreadable)} are", "fps_info_target": "odd/"})
        # ---- fps-from-smiles: parts x processes x pack, invalid smiles at arbitrary positions
        # every way of cutting the input into batches (one file filled by several workers, one file
        # filled batch by batch by one worker, several files) with an invalid entry in EVERY batch:
        # first row, a middle row of a later batch, last row
        spread = [("single", 2, None), ("single", 3, None), ("parts", 1, 3), ("max", 1, 2), ("parts", 2, 3)]
        n_random = 3 if tier == "quick" else 25
        for k in range(-len(spread), n_random):
            d = tmp / f"s{k + len(spread)}"
            d.mkdir()
            m = rng.randint(3, 14)
            many_parts = (k >= 0 and k % 3 == 2)   # 10..12 output files: the part index needs two digits
            if many_parts:
                m = rng.randint(22, 30)
            smiles = [rng.choice(SMILES_OK) for _ in range(m)]
            if k < 0:
                m = rng.choice([9, 10, 13])
                smiles = [rng.choice(SMILES_OK) for _ in range(m)]
                for pos in (0, m // 2, m - 1):
                    smiles[pos] = rng.choice(SMILES_BAD)
            else:
                n_bad = rng.choice([0, 1, 2])
                for _ in range(n_bad):
                    smiles[rng.randrange(m)] = rng.choice(SMILES_BAD)
            (d / "in.smi").write_text("\n".join(smiles) + "\n")
            pack = rng.random() < 0.6
            ref, ref_inv = fps_from_smiles(smiles, n_features=64, skip_invalid=True, pack=pack)
            mode = rng.choice(["single", "parts", "max"]) if not many_parts else rng.choice(["parts", "max"])
            ps = 2 if many_parts else rng.choice([1, 2] if tier == "quick" else [1, 2, 3, 8])
            if k < 0:
                mode, ps, _arg = spread[k + len(spread)]
            args = ["fps-from-smiles", str(d / "in.smi"), "-o", str(d / "out"), "--name", "x",
                    "--n-features", "64", "--skip-invalid", "--no-verbose", "--ps",
                    # many parts: more files than 4 x processes, so that a pool worker handles several
                    str(ps)]
            args += ["-p"] if pack else ["-P"]
            if k < 0 and mode in ("parts", "max"):
                args += ["-n" if mode == "parts" else "-m", str(_arg)]
            elif mode == "parts":
                args += ["-n", str(rng.randint(2, 4) if not many_parts else rng.choice([10, 11, 12]))]
            elif mode == "max":
                args += ["-m", str(rng.choice([2, 3, m, m + 5]) if not many_parts else 2)]
            rc, out, exc = _invoke(args)
            cases += 1
            if rc != 0:
                r.bad.append({"suite": "fps-cli", "what": f"fps-from-smiles failed rc={rc}: {exc!r}",
                              "args": args[4:], "n_smiles": m})
                continue
            files = sorted(f for f in (d / "out").glob("x*.npy"))
            cat = np.concatenate([np.load(f) for f in files]) if files else np.zeros((0, 8))
            if cat.tolist() != ref.tolist():
                r.bad.append({"suite": "fps-cli", "what": "files written by fps-from-smiles, concatenated in name "
                              "order, are not the fingerprints of the valid SMILES in input order",
                              "args": args[4:], "smiles": smiles})
            inv_files = sorted((d / "out").glob("invalid-*.npy"))
            if len(files) == 1 and len(ref_inv):
                got_inv = np.load(inv_files[0]).tolist() if inv_files else None
                if got_inv != ref_inv.tolist():
                    r.bad.append({"suite": "fps-cli", "what": "skipped entries are not reported by index",
                                  "args": args[4:], "smiles": smiles, "reported": got_inv})
            elif len(files) > 1 and len(ref_inv) and not inv_files:
                r.known_hits = getattr(r, "known_hits", []) + ["multi-file-skip-invalid-no-index"]
    out = eval_cases("fpscli", PRE, terms, shard=200) if terms else []
    for t, o in zip(terms, out):
        if o.strip() != "true":
            r.bad.append({"suite": "fps-cli", "what": "split names/merge differ from Model/FpsUtil.v", "term": t[:300]})
    r.cases = cases
    r.nontrivial = cases
    r.samples = [{"commands": ["fps-split", "fps-merge", "fps-shuffle", "fps-info", "fps-from-smiles"]}]
    return r


def search_c16(seed, tier, failures):
    import replay_util
    from suite_fpsgen import suite_fpsgen
    return replay_util.make_search([suite_file_seq, suite_batches, suite_fps_cli, suite_fpsgen])(seed, tier, failures)


def replay_c16(payload):
    import replay_util
    from suite_fpsgen import suite_fpsgen
    return replay_util.make_replay([suite_file_seq, suite_batches, suite_fps_cli, suite_fpsgen])(payload)


def finding_multi_file_skip_invalid():
    """open finding: multi-file fps-from-smiles --skip-invalid writes no index file"""
    with tempfile.TemporaryDirectory(prefix="verif_f14_") as tmp:
        d = Path(tmp)
        (d / "in.smi").write_text("CCO\nxx\nCCN\nC1CC1\n")
        rc, out, exc = _invoke(["fps-from-smiles", str(d / "in.smi"), "-o", str(d / "out"), "--name", "x",
                                "--n-features", "64", "--skip-invalid", "--no-verbose", "--ps", "2", "-n", "2"])
        return rc == 0 and not list((d / "out").glob("invalid-*.npy"))


if __name__ == "__main__":
    import sys
    for s in (suite_file_seq, suite_batches, suite_fps_cli):
        rr = s(int(sys.argv[1]) if len(sys.argv) > 1 else 1, sys.argv[2] if len(sys.argv) > 2 else "quick")
        print(rr.name, rr.cases, rr.nontrivial, len(rr.bad), rr.stats, getattr(rr, "known_hits", None))
        for b in rr.bad[:4]:
            print(str(b)[:500])
