"""Suite `merges` (C10, C03): the six built-in criteria, implementation vs Model/Merges.v
(`accept` with numpy's exp supplied as a table), plus purity (call order independence)."""
import random
import warnings

import numpy as np

from common import cz, cfloat, clist, czl, cbool, eval_cases
from pipeline import Result
import hist

warnings.filterwarnings("ignore")


def gen_pair(rng, nf):
    def cluster(n, dens):
        return [sum(1 for _ in range(n) if rng.random() < d) for d in dens]
    base = [rng.choice([0.02, 0.1, 0.5, 0.9, 0.98]) for _ in range(nf)]
    old_n = rng.choice([1, 1, 2, 3, 5, 10, 50, 254, 255, 256, 999, 1000, 1001, 1500])
    nom_n = rng.choice([1, 1, 1, 2, 3, 7, 100])
    old = cluster(old_n, base)
    drift = [min(1.0, max(0.0, d + rng.choice([0, 0, 0.1, -0.1, 0.4]))) for d in base]
    nom = cluster(nom_n, drift)
    return old, old_n, nom, nom_n


def stat_values(new_ls, new_n):
    import bblean.similarity as S
    a = np.array(new_ls, dtype=np.uint64)
    return float(S.jt_isim_from_sum(a, new_n)), float(S.jt_isim_radius_compl_from_sum(a, new_n))


def suite_merges(seed, tier):
    import bblean._merges as M
    from bblean.utils import min_safe_uint
    rng = random.Random(seed)
    r = Result("merges")
    n_cases = 300 if tier == "quick" else 6000
    objs = {}
    cases = []
    for _ in range(n_cases):
        nf = rng.choice([1, 2, 5, 16, 40])
        old, old_n, nom, nom_n = gen_pair(rng, nf)
        new = [a + b for a, b in zip(old, nom)]
        new_n = old_n + nom_n
        crit = rng.choice(hist.CRITS)
        tol = rng.choice([0.0, 0.05, 1.0, 10.0]) if crit in hist.HAS_TOL else None
        d, rc = stat_values(new, new_n)
        base = rc if "radius" in crit else d
        # thresholds at the achieved statistic +- 1 ulp and elsewhere
        thr = rng.choice([0.0, 1.0, 0.3, 0.65, base, float(np.nextafter(base, 2.0)),
                          float(np.nextafter(base, -1.0))])
        if thr != thr:
            thr = 0.5
        cases.append((crit, tol, thr, old, old_n, nom, nom_n, new, new_n))
    # big-moment stream: the sum of squared column counts of the merged cluster lands next to 2^31, 2^32,
    # 2^33 (cluster sizes of thousands; a few dense columns or many)
    for _ in range(40 if tier == "quick" else 600):
        nf = rng.choice([1, 2, 3, 5, 16, 40])
        target = rng.choice([2 ** 31, 2 ** 32, 2 ** 32, 2 ** 33])
        k0 = int((target / nf) ** 0.5)
        old = [max(1, k0 + rng.choice([-3, -1, 0, 0, 1, 2, 40])) for _ in range(nf)]
        old_n = max(old) + rng.choice([0, 0, 1, 17, 1000])
        nom_n = rng.choice([1, 1, 2, 45])
        nom = [rng.choice([0, nom_n, rng.randint(0, nom_n)]) for _ in range(nf)]
        new = [a + b for a, b in zip(old, nom)]
        new_n = old_n + nom_n
        crit = rng.choice(hist.CRITS)
        tol = rng.choice([0.0, 0.05, 1.0]) if crit in hist.HAS_TOL else None
        d, rc = stat_values(new, new_n)
        base = rc if "radius" in crit else d
        thr = rng.choice([0.3, 0.65, 0.95, 0.99, base, float(np.nextafter(base, 2.0)), float(np.nextafter(base, -1.0))])
        if thr != thr:
            thr = 0.5
        cases.append((crit, tol, thr, old, old_n, nom, nom_n, new, new_n))
    # tie stream: EVEN cluster sizes with a column set in exactly half of the members (the majority vote keeps
    # ties; n/2 * (1/n), 2k >= n and k >= n/2 are not the same computation in floating point / narrow ints);
    # every even size up to 256 and a sample of larger ones, as the old or as the merged cluster
    even = list(range(2, 257, 2)) + [rng.randrange(258, 3000, 2) for _ in range(40 if tier == "quick" else 400)]
    for n in even:
        nf = rng.choice([2, 3, 5])
        as_old = rng.random() < 0.6
        tot = n if as_old else n - 1
        if tot < 1:
            continue
        ks = [n // 2] + [rng.choice([0, n // 2, tot, rng.randint(0, tot)]) for _ in range(nf - 1)]
        ks = [min(k, tot) for k in ks]
        if as_old:
            old, old_n = ks, n
            nom = [rng.randint(0, 1) for _ in range(nf)]
        else:
            # the merged cluster has n members and the first column is set in n/2 of them
            b0 = rng.randint(0, 1)
            old, old_n = [n // 2 - b0] + ks[1:], n - 1
            nom = [b0] + [rng.randint(0, 1) for _ in range(nf - 1)]
            old = [max(0, min(k, old_n)) for k in old]
        new = [a + b for a, b in zip(old, nom)]
        crit = rng.choice(["radius", "tolerance-radius", "tolerance-radius", "diameter", "tolerance-diameter"])
        tol = rng.choice([0.0, 0.05]) if crit in hist.HAS_TOL else None
        d, rc = stat_values(new, old_n + 1)
        base = rc if "radius" in crit else d
        thr = rng.choice([0.05, 0.3, base, float(np.nextafter(base, -1.0))])
        if thr != thr:
            thr = 0.3
        cases.append((crit, tol, thr, old, old_n, nom, 1, new, old_n + 1))
    # dtype-top stream: 255 / 65535 members (as the old or as the merged cluster) with columns set in ALL of
    # them; the sums arrive in uint8 / uint16 and any arithmetic in that width wraps exactly here
    for _ in range(60 if tier == "quick" else 600):
        nf = rng.choice([3, 5, 8, 30])
        top = rng.choice([255, 255, 65535])
        nom_n = rng.choice([1, 1, 2, 60])
        old_n = rng.choice([top, top, top - nom_n, top - 1, top + 1])
        full = rng.randint(1, max(1, nf // 2))
        old = [old_n] * full + [rng.choice([0, old_n // 2, old_n - 1, rng.randint(0, old_n)]) for _ in range(nf - full)]
        nom = [rng.choice([nom_n, nom_n, 0, rng.randint(0, nom_n)]) for _ in range(nf)]
        new = [a + b for a, b in zip(old, nom)]
        new_n = old_n + nom_n
        crit = rng.choice(hist.CRITS)
        tol = rng.choice([0.0, 0.05, 1.0]) if crit in hist.HAS_TOL else None
        d, rc = stat_values(new, new_n)
        base = rc if "radius" in crit else d
        thr = rng.choice([0.1, 0.3, base, float(np.nextafter(base, -1.0))])
        if thr != thr:
            thr = 0.3
        cases.append((crit, tol, thr, old, old_n, nom, nom_n, new, new_n))
    # moment-collision stream: old clusters with equal (n, sum k, sum k^2) but different
    # column counts, probed one after the other with the same criterion object
    import itertools
    groups = {}
    for n in (4, 5, 6):
        for ks in itertools.combinations_with_replacement(range(n + 1), 3):
            groups.setdefault((n, sum(ks), sum(k * k for k in ks)), []).append(list(ks))
    coll = [(k, v) for k, v in groups.items() if len(v) >= 2]
    for (n, _, _), vs in coll:
        for crit in ("tolerance-radius", "tolerance-diameter", "tolerance-legacy", "radius"):
            for nom in ([1, 0, 1], [0, 1, 0], [1, 1, 1]):
                tol = rng.choice([0.0, 0.05, 1.0])
                thr = rng.choice([0.0, 0.1, 0.3, 0.5])
                for old in vs[:3]:
                    new = [a + b for a, b in zip(old, nom)]
                    cases.append((crit, tol, thr, old, n, nom, 1, new, n + 1))
    # implementation: one object per (crit, tol), called in generation order, then again in
    # shuffled order interleaved with other arguments (purity)
    def call(c):
        crit, tol, thr, old, old_n, nom, nom_n, new, new_n = c
        key = (crit, tol)
        if key not in objs:
            objs[key] = M.get_merge_accept_fn(crit, 0.05 if tol is None else tol)
        dt_new = min_safe_uint(new_n)
        return bool(objs[key](thr, np.array(new, dtype=dt_new), new_n,
                              np.array(old, dtype=min_safe_uint(old_n)),
                              np.array(nom, dtype=min_safe_uint(nom_n)), old_n, nom_n))
    first = [call(c) for c in cases]
    import oracles
    for c, res in zip(cases, first):
        v = oracles.c10_exact_violation(c[0], c[2], c[7], c[8], res)
        if v:
            r.bad.append({"suite": "merges", "kind": "law", "what": v, "case": list(c[:7])})
    order = list(range(len(cases)))
    rng.shuffle(order)
    second = {}
    for i in order:
        second[i] = call(cases[i])
    for i, c in enumerate(cases):
        if first[i] != second[i]:
            r.bad.append({"suite": "merges", "kind": "impure", "case": c,
                          "first": first[i], "again": second[i]})
    terms = []
    for c, res in zip(cases, first):
        crit, tol, thr, old, old_n, nom, nom_n, new, new_n = c
        terms.append(f"Bool.eqb (accept fexp {hist.crit_term(crit, tol)} {cfloat(thr)} {czl(new)} "
                     f"{cz(new_n)} {czl(old)} {czl(nom)} {cz(old_n)} {cz(nom_n)}) {cbool(res)}")
    pre = hist.exp_preamble(1600, extra_ns=sorted({c[4] for c in cases if c[4] > 1600})).replace("Model.Obs.", "Model.Obs.\nFrom BB Require Import Model.ObsBits.")
    out = eval_cases("merges", pre, terms, shard=300)
    r.cases = len(cases)
    r.nontrivial = len({str(c) for c in cases})
    for c, o, res in zip(cases, out, first):
        if o.strip() != "true":
            r.bad.append({"suite": "merges", "kind": "model-differs", "case": c, "impl": res})
    acc = sum(first)
    r.stats = {"accepted": acc, "rejected": len(first) - acc,
               "by_criterion": {k: sum(1 for c in cases if c[0] == k) for k in hist.CRITS},
               "old_n_values": sorted({c[4] for c in cases})}
    r.samples = [{"criterion": cases[0][0], "tolerance": cases[0][1], "threshold": cases[0][2],
                  "old": cases[0][3][:6], "old_n": cases[0][4], "nominee_n": cases[0][6]}]
    return r


if __name__ == "__main__":
    import sys
    rr = suite_merges(int(sys.argv[1]) if len(sys.argv) > 1 else 1, sys.argv[2] if len(sys.argv) > 2 else "quick")
    print(rr.name, rr.cases, rr.nontrivial, len(rr.bad), rr.stats)
    for b in rr.bad[:3]:
        print(b)
