"""Suite `sub-unit` (C02, C08): _BFSubcluster operations at every counter-width boundary,
implementation vs Model/Tree.v (values AND dtype)."""
import random
import warnings

import numpy as np

from common import cz, cfloat, clist, czl, cfpv, cbool, eval_cases
from pipeline import Result
import hist

warnings.filterwarnings("ignore")
W = {8: "W8", 16: "W16", 32: "W32", 64: "W64"}
DT = {8: np.uint8, 16: np.uint16, 32: np.uint32, 64: np.uint64}
BOUND = [1, 2, 3, 127, 128, 254, 255, 256, 257, 65534, 65535, 65536, 65537,
         2 ** 32 - 2, 2 ** 32 - 1, 2 ** 32, 2 ** 32 + 1, 2 ** 40]


def minbits(n):
    return 8 if n < 256 else 16 if n < 65536 else 32 if n < 2 ** 32 else 64


def gen_buf(rng, nf, n):
    ks = [rng.choice([0, 1, n // 2, (n + 1) // 2, n - 1, n, rng.randint(0, n)]) for _ in range(nf)]
    return ks


def mk_impl_sub(spec, nf):
    from bblean.bitbirch import _BFSubcluster
    kind = spec[0]
    if kind == "single":
        return _BFSubcluster(linear_sum=np.array(spec[1], dtype=np.uint8), mol_indices=[spec[2]],
                             n_features=nf)
    if kind == "buffer":
        _, ks, n, ids_len = spec
        buf = np.array(ks + [n], dtype=DT[minbits(n)])
        return _BFSubcluster(buffer=buf, mol_indices=range(ids_len), n_features=nf,
                             check_indices=False)
    return _BFSubcluster(n_features=nf)


def sub_term(spec, nf):
    kind = spec[0]
    if kind == "single":
        return f"(singleton {cfpv(spec[1])} {cz(spec[2])})"
    if kind == "buffer":
        _, ks, n, ids_len = spec
        return (f"(sub_of_buffer {W[minbits(n)]} {czl(ks)} {cz(n)} {czl(list(range(ids_len)))})")
    return f"(empty_sub {nf}%nat)"


def obs(s, nf):
    buf = s._buffer
    cent = np.unpackbits(s.packed_centroid, count=nf).tolist() if len(s.packed_centroid) else []
    return (int(buf.dtype.itemsize * 8), int(buf[-1]), [int(v) for v in buf[:-1]], cent,
            [int(i) for i in s.mol_indices])


def spec_counts(spec, nf):
    """(count, per-bit sums) a sub-cluster specification stands for"""
    if spec[0] == "single":
        return 1, [int(v) for v in spec[1]]
    if spec[0] == "buffer":
        return int(spec[2]), [int(v) for v in spec[1]]
    return 0, [0] * nf


def sub_violation(case):
    """C02 on one _BFSubcluster operation, against exact integer arithmetic (no model, nothing of the
    implementation): after update / an accepted merge the stored count is the sum of the two counts, the
    stored per-bit sums are the sums of the two, the counters have the narrowest width that holds the count
    and the centroid is the majority vote of the stored sums; a rejected merge changes nothing"""
    import bblean._merges as M
    a, b, opk, nf = case["a"], case["b"], case["op"], case["nf"]
    a = tuple(a)
    b = tuple(b)
    sa, sb = mk_impl_sub(a, nf), mk_impl_sub(b, nf)
    (na, ka), (nb, kb) = spec_counts(a, nf), spec_counts(b, nf)
    before_b = obs(sb, nf)
    if opk == "update":
        sa.update(sb)
        ok = True
    elif opk == "merge":
        fn = M.get_merge_accept_fn(case["crit"], 0.05 if case["tol"] is None else case["tol"])
        ok = sa.merge_subcluster(sb, case["thr"], fn)
    else:
        return None
    if obs(sb, nf) != before_b:
        return "the argument sub-cluster was modified"
    bits, n, ks, cent, ids = obs(sa, nf)
    want_n, want_ks = (na + nb, [x + y for x, y in zip(ka, kb)]) if ok else (na, ka)
    if n != want_n:
        return f"{opk}: stored count {n}, the two clusters hold {want_n} fingerprints"
    if ks != want_ks:
        d = [(j, x, y) for j, (x, y) in enumerate(zip(ks, want_ks)) if x != y][:4]
        return (f"{opk} of clusters with {na} and {nb} members: stored per-bit sums differ from the sums of the "
                f"two clusters at (bit, stored, expected) {d}")
    if want_n > 0 and bits != minbits(want_n):
        return f"{opk}: counters kept in uint{bits} for {want_n} members"
    if want_n > 1 and cent != [1 if 2 * k >= want_n else 0 for k in want_ks]:
        return f"{opk}: the centroid is not the majority vote of the stored sums"
    return None


def suite_sub(seed, tier):
    import bblean._merges as M
    rng = random.Random(seed)
    r = Result("sub-unit")
    n_cases = 300 if tier == "quick" else 5000
    terms, meta = [], []
    for _ in range(n_cases):
        nf = rng.choice([1, 3, 8, 13])
        def pick():
            k = rng.random()
            if k < 0.25:
                return ("single", [rng.randint(0, 1) for _ in range(nf)], rng.randint(0, 99))
            if k < 0.9:
                n = rng.choice(BOUND) if rng.random() < 0.8 else rng.randint(1, 70000)
                return ("buffer", gen_buf(rng, nf, n), n, rng.randint(0, 3))
            return ("empty",)
        a, b = pick(), pick()
        if b[0] == "empty":
            b = ("single", [1] * nf, 7)
        opk = rng.choice(["update", "merge", "construct"]) if a[0] != "empty" else "update"
        sa, sb = mk_impl_sub(a, nf), mk_impl_sub(b, nf)
        before_b = obs(sb, nf)
        if opk == "construct":
            res = obs(sa, nf)
            term = f"csub_eqb (csub_of {sub_term(a, nf)}) {hist.csub_term(res)}"
        elif opk == "update":
            sa.update(sb)
            res = obs(sa, nf)
            term = f"csub_eqb (csub_of (upd_sub {sub_term(a, nf)} {sub_term(b, nf)})) {hist.csub_term(res)}"
        else:
            crit = rng.choice(hist.CRITS)
            tol = rng.choice([0.0, 0.05, 1.0]) if crit in hist.HAS_TOL else None
            thr = rng.choice([0.0, 0.2, 0.5, 0.9, 1.0])
            fn = M.get_merge_accept_fn(crit, 0.05 if tol is None else tol)
            ok = sa.merge_subcluster(sb, thr, fn)
            res = obs(sa, nf)
            exp = f"(Some {hist.csub_term(res)})" if ok else "None"
            term = (f"match merge_sub fexp {hist.crit_term(crit, tol)} {cfloat(thr)} "
                    f"{sub_term(a, nf)} {sub_term(b, nf)}, {exp} with "
                    f"| Some m, Some e => csub_eqb (csub_of m) e | None, None => true | _, _ => false end")
            if not ok and obs(sa, nf) != obs(mk_impl_sub(a, nf), nf):
                r.bad.append({"suite": "sub-unit", "what": "rejected merge changed the cluster",
                              "a": a, "b": b})
        if obs(sb, nf) != before_b:
            r.bad.append({"suite": "sub-unit", "what": "argument sub-cluster was modified",
                          "a": a, "b": b, "op": opk})
        terms.append(term)
        meta.append({"a": a, "b": b, "op": opk, "impl": res})
        if opk in ("update", "merge"):
            case = {"a": list(a), "b": list(b), "op": opk, "nf": nf}
            if opk == "merge":
                case.update(crit=crit, tol=tol, thr=thr)
            try:
                v = sub_violation(case)
            except ValueError:
                v = None                        # counts beyond uint64 are refused (checked below)
            if v:
                r.bad.append({"suite": "sub-unit", "what": v, "sub_case": case})
    pre = hist.exp_preamble(300, [m['a'][2] for m in meta if m['a'][0] == 'buffer'])
    out = eval_cases("sub", pre, terms, shard=300)
    r.cases = len(terms)
    r.nontrivial = len({str((m["a"], m["b"], m["op"])) for m in meta})
    for m, o in zip(meta, out):
        if o.strip() != "true":
            r.bad.append({"suite": "sub-unit", "what": "model differs", **m})
    # counts beyond uint64 are refused and leave the cluster unchanged
    from bblean.bitbirch import _BFSubcluster
    big = _BFSubcluster(buffer=np.array([5, 2 ** 64 - 1], dtype=np.uint64), mol_indices=(),
                        check_indices=False)
    one = _BFSubcluster(linear_sum=np.array([1], dtype=np.uint8), mol_indices=[0])
    before = obs(big, 1)
    try:
        big.update(one)
        r.bad.append({"suite": "sub-unit", "what": "count >= 2^64 was not refused"})
    except ValueError:
        if obs(big, 1) != before:
            r.bad.append({"suite": "sub-unit", "what": "refused overflow modified the cluster"})
    r.stats = {"ops": {k: sum(1 for m in meta if m["op"] == k) for k in ("update", "merge", "construct")},
               "boundary_counts": sorted({m["a"][2] for m in meta if m["a"][0] == "buffer"})[:30]}
    r.samples = [meta[0]]
    return r


if __name__ == "__main__":
    import sys
    rr = suite_sub(int(sys.argv[1]) if len(sys.argv) > 1 else 1, sys.argv[2] if len(sys.argv) > 2 else "quick")
    print(rr.name, rr.cases, rr.nontrivial, len(rr.bad), rr.stats)
    for b in rr.bad[:4]:
        print(b)
