"""Search / replay helpers for suites that are deterministic functions of (seed, tier): the failing
input recorded in a replay file is (suite, seed, tier, record); replaying regenerates exactly that
suite run on the current implementation and asks whether the same record violates the property
again.  Differences between model and implementation are never reported as failing inputs."""
import json


def is_model_diff(what: str) -> bool:
    return "model" in what.lower()


def _canon(d):
    return json.dumps({k: v for k, v in d.items() if k not in ("what", "suite")}, sort_keys=True, default=str)


def _pack(d, suite_name, seed, tier):
    return {"violation": d["what"], "suite": suite_name, "suite_seed": seed, "tier": tier,
            "record": json.loads(_canon(d))}


def make_search(suites, extra=None):
    """suites: list of (seed, tier) -> Result.  extra: optional (seed, tier) -> dict|None"""
    def search(seed, tier, failures):
        for kind, d in failures:
            if kind.startswith("disagreement:") and isinstance(d, dict) and "what" in d \
                    and not is_model_diff(d["what"]):
                return _pack(d, kind.split(":", 1)[1], seed, tier)
        for s in suites:
            rr = s(seed + 1, "quick")
            for d in rr.bad:
                if not is_model_diff(d["what"]):
                    return _pack(d, rr.name, seed + 1, "quick")
        return extra(seed, tier) if extra else None
    return search


def make_replay(suites, extra=None):
    """True = the property holds on the recorded input"""
    def replay(payload):
        fi = payload.get("failing_input") or {}
        if "suite_seed" not in fi:
            return extra(payload) if extra else True
        key = json.dumps(fi.get("record", {}), sort_keys=True, default=str)
        for s in suites:
            rr = s(fi["suite_seed"], fi.get("tier", "quick"))
            if rr.name != fi.get("suite"):
                continue
            for d in rr.bad:
                if not is_model_diff(d["what"]) and _canon(d) == key:
                    return False
            return True
        return True
    return replay
