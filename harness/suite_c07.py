"""Suites for C07: choice of the split seeds (most-dissimilar search) against the model,
the legacy implementations (differential, not proof), and the Python reference
specification as search oracle."""
import random
import warnings

import numpy as np

from common import cz, cnat, cfloat, clist, czl, cfpv, cbool, eval_cases
from pipeline import Result
import hist
import suite_bits
import spec_py

warnings.filterwarnings("ignore")


def suite_dissim_choice(seed, tier):
    """jt_most_dissimilar_packed: the SAME two seeds and similarities as Model/Sim.v
    (farthest from the majority-vote centroid, then farthest from it; first on ties)"""
    rng = random.Random(seed + 5)
    r = Result("dissim-choice")
    cases = []
    for _ in range(300 if tier == "quick" else 5000):
        nf = rng.choice([3, 5, 8, 13, 16, 40, 64])
        nr = rng.randint(2, 9)            # odd and even counts (node sizes bf+1)
        dens = rng.choice([0.1, 0.5, 0.9])
        rows = [[1 if rng.random() < dens else 0 for _ in range(nf)] for _ in range(nr)]
        if rng.random() < 0.3:            # exact ties in the majority vote
            for j in range(nf):
                if rng.random() < 0.5:
                    col = [1] * (nr // 2) + [0] * (nr - nr // 2)
                    rng.shuffle(col)
                    for i in range(nr):
                        rows[i][j] = col[i]
        cases.append((rows, nf))
    terms, obs = [], []
    for rows, nf in cases:
        o = suite_bits.impl_obs(rows, nf)
        obs.append(o)
        terms.append(f"check_dissim_choice {cnat(nf)} {clist(rows, cfpv)} {suite_bits.obs_term(o)}")
    out = eval_cases("dissim", suite_bits.PRE, terms, shard=300)
    r.cases = len(cases)
    r.nontrivial = len({str(c) for c in cases})
    for (rows, nf), o, v in zip(cases, obs, out):
        if v.strip() != "true":
            r.bad.append({"suite": "dissim-choice", "rows": rows, "nf": nf, "impl": o["dissim"]})
    r.stats = {"even_sizes": sum(1 for c in cases if len(c[0]) % 2 == 0)}
    r.samples = [{"rows": cases[0][0], "nf": cases[0][1]}]
    return r


def legacy_clusters(variant, rows, cfg):
    from bblean.utils import _import_bitbirch_variant
    Cls, set_merge = _import_bitbirch_variant(variant)
    crit = cfg["crit"]
    legacy_name = {"tolerance-legacy": "tolerance"}.get(crit, crit)
    A = np.array(rows, dtype=np.uint8 if variant == "uint8" else np.int64)
    with np.errstate(invalid="raise", divide="raise"):
        try:
            set_merge(legacy_name, 0.05 if cfg["tol"] is None else cfg["tol"])
        except TypeError:
            set_merge(legacy_name)
        t = Cls(threshold=cfg["thr"], branching_factor=cfg["bf"])
        try:
            t.fit(A, input_is_packed=False, n_features=A.shape[1])
        except TypeError:
            t.fit(A)
        return t.get_cluster_mol_ids()


def suite_legacy(seed, tier):
    """differential testing (NOT proof) of the two bundled legacy implementations against
    the current one, on 2048-bit inputs where they raise no invalid-FP condition"""
    from bblean.fingerprints import make_fake_fingerprints
    rng = random.Random(seed + 9)
    r = Result("legacy")
    n_inputs = 3 if tier == "quick" else 30
    undefined = 0
    for k in range(n_inputs):
        n = 150 if tier == "quick" else 800
        fps = make_fake_fingerprints(n, n_features=2048, seed=rng.randint(0, 2 ** 31), pack=False)
        # make clusters likely: noisy copies of a few rows
        base = fps[: rng.randint(3, 8)]
        rows = []
        for i in range(n):
            b = base[rng.randrange(len(base))].copy()
            flip = np.random.default_rng(rng.randint(0, 2 ** 31)).random(2048) < rng.choice([0.01, 0.05])
            rows.append((b ^ flip.astype(np.uint8)).tolist())
        for crit in ("diameter", "radius", "tolerance-legacy"):
            cfg = {"crit": crit, "tol": 0.05 if crit.startswith("tol") else None,
                   "thr": rng.choice([0.3, 0.5, 0.65]), "bf": rng.choice([3, 4, 7, 50, 51])}
            bb = hist.make_bb(cfg)
            bb.fit(np.array(rows, dtype=np.uint8), input_is_packed=False)
            cur = bb.get_cluster_mol_ids()
            for variant in ("uint8", "int64"):
                try:
                    leg = legacy_clusters(variant, rows, cfg)
                except FloatingPointError:
                    undefined += 1
                    continue
                r.cases += 1
                if leg != cur:
                    r.bad.append({"suite": "legacy", "variant": variant, "cfg": cfg,
                                  "n_rows": n, "first_rows": rows[:2],
                                  "what": "legacy implementation disagrees with the current one"})
    # sparse 2048-bit inputs on which the radius and the diameter family decide differently (threshold
    # between the two statistics of the last merge): the legacy radius / diameter criteria are the reference
    sep = 0
    for rows, cfg in gen_separating(rng, 24 if tier == "quick" else 400):
        if cfg["crit"] not in ("radius", "diameter"):
            continue
        wide = []
        nfs = len(rows[0])
        cols = rng.sample(range(2048), nfs)
        for row in rows:
            w = [0] * 2048
            for j, b in enumerate(row):
                if b:
                    w[cols[j]] = 1
            wide.append(w)
        cfg = {**cfg, "bf": 50}
        bb = hist.make_bb(cfg)
        bb.fit(np.array(wide, dtype=np.uint8), input_is_packed=False)
        cur = bb.get_cluster_mol_ids()
        for variant in ("uint8", "int64"):
            try:
                leg = legacy_clusters(variant, wide, cfg)
            except FloatingPointError:
                undefined += 1
                continue
            r.cases += 1
            sep += 1
            if leg != cur:
                r.bad.append({"suite": "legacy", "variant": variant, "cfg": cfg, "n_rows": len(rows),
                              "rows_on_bits": [[cols[j] for j, b in enumerate(row) if b] for row in rows],
                              "legacy_rows": wide,
                              "what": f"legacy implementation disagrees with the current one on a sparse input "
                                      f"({len(leg)} vs {len(cur)} clusters)"})
    # exact ties at the threshold: two fingerprints whose Tanimoto (= the iSIM of the pair) is EXACTLY the
    # decimal threshold as a rational (11/20, 55/100, 99/180 for 0.55 ...), followed by an unrelated row and
    # a duplicate of the first; `statistic >= threshold` evaluated in any other (mathematically equal) form
    # rounds differently exactly here
    from fractions import Fraction
    ties = 0
    tie_thrs = [Fraction(k, 20) for k in range(2, 19)]
    if tier != "quick":
        tie_thrs += [Fraction(k, 100) for k in range(11, 90, 3) if k % 5]
    for tq in tie_thrs:
        for m in ([1, 2, 5, 9, 10] if tier == "quick" else [1, 2, 3, 5, 7, 9, 10, 13]):
            inter, union = tq.numerator * m, tq.denominator * m
            if union > 1200:
                continue
            cols = rng.sample(range(2048), union + 40)
            only = union - inter
            a_only = only // 2
            A = set(cols[:inter]) | set(cols[inter:inter + a_only])
            B = set(cols[:inter]) | set(cols[inter + a_only:union])
            C = set(cols[union:union + 40])
            rows4 = [[1 if j in S else 0 for j in range(2048)] for S in (A, B, C, A)]
            for crit in ("diameter", "tolerance-legacy"):
                cfg = {"crit": crit, "tol": 0.05 if crit.startswith("tol") else None, "thr": float(tq), "bf": 50}
                bb = hist.make_bb(cfg)
                bb.fit(np.array(rows4, dtype=np.uint8), input_is_packed=False)
                cur = bb.get_cluster_mol_ids()
                for variant in ("uint8", "int64"):
                    try:
                        leg = legacy_clusters(variant, rows4, cfg)
                    except FloatingPointError:
                        undefined += 1
                        continue
                    r.cases += 1
                    ties += 1
                    if leg != cur:
                        r.bad.append({"suite": "legacy", "variant": variant, "cfg": cfg, "n_rows": 4,
                                      "rows_on_bits": [sorted(S) for S in (A, B, C, A)], "legacy_rows": rows4,
                                      "what": f"legacy implementation disagrees with the current one on a pair whose "
                                              f"Tanimoto is exactly the threshold {tq} = {inter}/{union} "
                                              f"({leg} vs {cur})"})
    r.nontrivial = r.cases
    r.stats = {"inputs": n_inputs, "undefined_for_legacy": undefined, "criteria_separating_runs": sep,
               "exact_threshold_ties": ties}
    r.samples = [{"n_rows": 150 if tier == "quick" else 800, "bits": 2048}]
    return r


def gen_tall(rng, n_cases):
    """inputs with one family of 130..400 near-identical rows sharing bits (column counts beyond 127 and
    255 inside one cluster: the minimal-width counters are at their limits) next to small families"""
    out = []
    for _ in range(n_cases):
        nf = rng.choice([16, 24, 33, 64])
        base = [1 if rng.random() < 0.5 else 0 for _ in range(nf)]
        base[0] = 1
        rows = []
        for _k in range(rng.choice([130, 180, 230, 262, 400])):
            row = list(base)
            if rng.random() < 0.25:
                row[rng.randrange(1, nf)] ^= 1
            rows.append(row)
        for _f in range(rng.randint(1, 4)):
            other = [1 if rng.random() < 0.4 else 0 for _ in range(nf)]
            other[rng.randrange(nf)] = 1
            for _k in range(rng.randint(2, 30)):
                row = list(other)
                if rng.random() < 0.3:
                    row[rng.randrange(nf)] ^= 1
                if any(row):
                    rows.append(row)
        rng.shuffle(rows)
        crit = rng.choice(["diameter", "radius", "tolerance-diameter", "tolerance-legacy"])
        cfg = {"crit": crit, "tol": 0.05 if crit.startswith("tol") else None,
               "thr": rng.choice([0.5, 0.65, 0.8]), "bf": rng.choice([3, 5, 50])}
        out.append((rows, cfg))
    return out


def gen_separating(rng, n_cases):
    """sparse row sequences r_0 .. r_t and a threshold T such that every merge of r_1 .. r_(t-1) into the
    growing cluster passes BOTH statistics (iSIM and radius complement >= T) while the last merge passes
    exactly one of them: the radius and the diameter families then decide differently on the last row, so
    the clustering shows which statistic a criterion really evaluates"""
    import oracles_hist
    out = []
    tries = 0
    while len(out) < n_cases and tries < 2000 * n_cases:
        tries += 1
        # both directions are wanted: iSIM above the radius complement (several bits each present in fewer
        # than half of the members) and below it (the usual case)
        want_isim_above = (len(out) // 4) % 2 == 0
        nf = rng.choice([7, 8, 12, 16, 64])
        shared = rng.sample(range(nf), rng.choice([1, 2, 3]))
        minority = [j for j in range(nf) if j not in shared][:rng.randint(3, 6)]
        p = rng.choice([0.3, 0.4, 0.5])
        rows, ks, floor = [], [0] * nf, 1.0
        for t in range(rng.randint(5, 14)):
            on = set(shared) | {j for j in minority if rng.random() < p}
            row = [1 if j in on else 0 for j in range(nf)]
            rows.append(row)
            ks = [k + b for k, b in zip(ks, row)]
            if t == 0:
                continue
            a, b = float(oracles_hist.exact_isim(ks, t + 1)), float(oracles_hist.exact_rcompl(ks, t + 1))
            lo, hi = min(a, b), max(a, b)
            top = min(hi, floor)
            if t >= 3 and top - lo > 0.01 and (a > b) == want_isim_above:
                thr = round(lo + (top - lo) / 2, 5)
                for crit in ("radius", "diameter", "tolerance-radius", "tolerance-diameter"):
                    cfg = {"crit": crit, "tol": 0.0 if crit.startswith("tol") else None, "thr": thr,
                           "bf": rng.choice([3, 50])}
                    out.append(([list(r) for r in rows], cfg))
                break
            floor = min(floor, lo)
    return out


def suite_reference_tall(seed, tier):
    """the implementation against the reference procedure (harness/spec_py.py, the executable reading of
    Model/Spec.v) on inputs with big clusters"""
    rng = random.Random(seed + 13)
    r = Result("reference-tall")
    for rows, cfg in gen_tall(rng, 4 if tier == "quick" else 60) + gen_separating(rng, 40 if tier == "quick" else 800):
        r.cases += 1
        v = c07_violation(rows, cfg)
        if v:
            r.bad.append({"suite": "reference-tall", "what": v, "rows": rows, "cfg": cfg})
    r.nontrivial = r.cases
    r.stats = {"inputs": r.cases}
    r.samples = [{"kind": "one family of 130..400 near-identical rows + small families; sparse inputs with the "
                          "threshold between iSIM and radius complement of a would-be cluster"}]
    return r


def c07_violation(rows, cfg):
    bb = hist.make_bb(cfg)
    bb.fit(np.array(rows, dtype=np.uint8), input_is_packed=False)
    got = [[int(i) for i in c] for c in bb.get_cluster_mol_ids(sort=True)]
    ref = spec_py.reference_clusters(rows, cfg)
    if got != ref:
        return f"clusters differ from the reference procedure: got {got[:4]}..., reference {ref[:4]}..."
    return None


def legacy_violation(rows, cfg, variant):
    bb = hist.make_bb(cfg)
    bb.fit(np.array(rows, dtype=np.uint8), input_is_packed=False)
    cur = bb.get_cluster_mol_ids()
    try:
        leg = legacy_clusters(variant, rows, cfg)
    except FloatingPointError:
        return None
    if leg != cur:
        return (f"the bundled legacy implementation ({variant}) gives {len(leg)} clusters, the current one "
                f"{len(cur)}: {leg[:3]} vs {cur[:3]}")
    return None


def search_c07(seed, tier, failures):
    cands = []
    for kind, d in failures:
        if isinstance(d, dict) and "legacy_rows" in d:
            v = legacy_violation(d["legacy_rows"], d["cfg"], d["variant"])
            if v:
                on = [[j for j, b in enumerate(row) if b] for row in d["legacy_rows"]]
                return {"legacy_rows_on_bits": on, "n_bits": len(d["legacy_rows"][0]), "cfg": d["cfg"],
                        "legacy_variant": d["variant"], "violation": v}
    for kind, d in failures:
        if isinstance(d, dict) and "rows" in d and "cfg" in d:
            cands.append((d["rows"], d["cfg"]))
        if isinstance(d, dict) and "history" in d:
            h = d["history"]
            rows = [r for o in h["ops"] if o["op"] == "fit" and o.get("bad_at") is None for r in o["rows"]]
            if rows and all(o["op"] == "fit" for o in h["ops"]):
                cands.append((rows, h["cfg"]))
    rng = random.Random(seed + 21)
    cands += gen_tall(rng, 6) + gen_separating(rng, 60)
    for _ in range(300 if tier == "quick" else 3000):
        cfg = hist.gen_cfg(rng)
        nf = rng.choice([3, 5, 8, 11, 16, 24])
        rows, _ = hist.gen_fps(rng, rng.randint(3, 40), nf)
        cands.append((rows, cfg))
    for rows, cfg in cands:
        v = c07_violation(rows, cfg)
        if v:
            return {"rows": rows, "cfg": cfg, "violation": v}
    return None


def replay_c07(payload):
    fi = payload.get("failing_input")
    if not fi:
        return True
    if "legacy_rows_on_bits" in fi:
        rows = [[1 if j in set(on) else 0 for j in range(fi["n_bits"])] for on in fi["legacy_rows_on_bits"]]
        return legacy_violation(rows, fi["cfg"], fi["legacy_variant"]) is None
    return c07_violation(fi["rows"], fi["cfg"]) is None


if __name__ == "__main__":
    import sys
    for s in (suite_dissim_choice, suite_legacy):
        rr = s(int(sys.argv[1]) if len(sys.argv) > 1 else 1, sys.argv[2] if len(sys.argv) > 2 else "quick")
        print(rr.name, rr.cases, rr.nontrivial, len(rr.bad), rr.stats)
        for b in rr.bad[:3]:
            print(str(b)[:500])
    print("search on pristine:", search_c07(1, "quick", []))
