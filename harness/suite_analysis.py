"""Suite `analysis` (C19): cluster_analysis over every fingerprint provider and the
Dunn / CHI / DBI indices, implementation vs Model/Analysis.v, plus the representation /
permutation invariances checked directly."""
import math
import random
import re
import tempfile
import warnings
from fractions import Fraction
from pathlib import Path

import numpy as np

from common import cz, cnat, cfloat, clist, czl, cfpv, copt, eval_cases
from pipeline import Result
import hist

warnings.filterwarnings("ignore")
PRE = "From BB Require Import Model.Analysis Model.ObsBits.\nOpen Scope Z_scope.\n"


def parse_coq(s):
    """Coq printed value (lists, tuples, floats, Z) -> python"""
    s = s.replace(";", ",").replace("%float", "").replace("%Z", "")
    s = re.sub(r"\bnan\b", "float('nan')", s)
    s = re.sub(r"\bneg_infinity\b", "float('-inf')", s)
    s = re.sub(r"\binfinity\b", "float('inf')", s)
    return eval(s, {"float": float})


def gen_tall_clustering(rng):
    """families of 256..400, 128..255 and a few dozen members, each with scaffold bits set in EVERY member
    (column counts equal to the cluster size: beyond 127 / 255 inside one cluster), given as the clusters"""
    nf = rng.choice([16, 24])
    rows, clusters = [], []
    for size in (rng.choice([256, 300, 400]), rng.choice([128, 200, 255]), rng.randint(5, 40)):
        scaffold = rng.sample(range(nf), 3)
        dens = rng.choice([0.2, 0.5, 0.8])
        members = []
        for _ in range(size):
            r_ = [1 if (j in scaffold or rng.random() < dens) else 0 for j in range(nf)]
            members.append(len(rows))
            rows.append(r_)
        clusters.append(members)
    # interleave the families in the array (members are then not contiguous); keep lists ascending or not
    perm = list(range(len(rows)))
    rng.shuffle(perm)
    inv = {old: new for new, old in enumerate(perm)}
    rows = [rows[i] for i in perm]
    clusters = [sorted(inv[i] for i in c) if rng.random() < 0.5 else [inv[i] for i in c] for c in clusters]
    return nf, rows, clusters


def gen_clustering(rng):
    cfg = hist.gen_cfg(rng)
    cfg["thr"] = rng.choice([0.3, 0.5, 0.65])
    nf = rng.choice([8, 16, 24])
    rows, _ = hist.gen_fps(rng, rng.randint(6, 40), nf, None, rng.choice([0.05, 0.15]))
    bb = hist.make_bb(cfg)
    A = np.array(rows, dtype=np.uint8)
    bb.fit(A, input_is_packed=False)
    clusters = [list(map(int, c)) for c in bb.get_cluster_mol_ids()]
    # member lists are ascending after a plain fit; refine / recluster produce other orders, so
    # half of the cases permute them: randomly, or so that last - first == size - 1 although the
    # members are not a contiguous run (a contiguity test on the end points would be fooled)
    if rng.random() < 0.5:
        out = []
        for c in clusters:
            c = list(c)
            rng.shuffle(c)
            s_ = set(c)
            pairs = [x for x in c if x + len(c) - 1 in s_ and len(c) > 1]
            if pairs and rng.random() < 0.7:
                x = rng.choice(pairs)
                y = x + len(c) - 1
                mid = [v for v in c if v not in (x, y)]
                c = [x] + mid + [y]
            out.append(c)
        clusters = out
    return nf, rows, clusters


def suite_analysis(seed, tier):
    from bblean.analysis import cluster_analysis
    rng = random.Random(seed)
    r = Result("analysis")
    terms, meta = [], []
    n_cases = 40 if tier == "quick" else 800
    with tempfile.TemporaryDirectory(prefix="verif_ana_") as tmp:
        tmp = Path(tmp)
        for k in range(n_cases):
            nf, rows, clusters = gen_tall_clustering(rng) if k < (2 if tier == "quick" else 12) else gen_clustering(rng)
            A = np.array(rows, dtype=np.uint8)
            P = np.packbits(A, axis=1)
            top = rng.choice([None, 1, 2, 5, 20])
            min_size = rng.choice([0, 0, 1, 2, 3])
            # providers: array / file / file sequence, packed / unpacked (the same paths are rewritten from case
            # to case: what counts is the file as it is on disk now)
            np.save(tmp / "u.npy", A)
            np.save(tmp / "p.npy", P)
            cut = rng.randint(1, len(rows) - 1)
            np.save(tmp / "sa.npy", P[:cut])
            np.save(tmp / "sb.npy", P[cut:])
            # a second sequence: 2..12 parts whose names are NOT in lexicographic order in the order given
            # (descending names / unpadded part numbers / different directories): the order of the sequence
            # is the caller's, and it defines the global row index
            m = min(len(rows), rng.choice([2, 3, 5, 11, 12]))
            cuts = sorted(rng.sample(range(1, len(rows)), m - 1)) if m > 1 else []
            bounds = [0] + cuts + [len(rows)]
            scheme = rng.choice(["descending", "unpadded", "dirs"])
            packed2 = rng.random() < 0.5
            seq2 = []
            for j in range(m):
                if scheme == "descending":
                    pth = tmp / f"t-{chr(ord('z') - j)}.npy"
                elif scheme == "unpadded":
                    pth = tmp / f"t-chunk-{j}.npy"
                else:
                    (tmp / f"d-{(m - j):02d}").mkdir(exist_ok=True)
                    pth = tmp / f"d-{(m - j):02d}" / "part.npy"
                np.save(pth, (P if packed2 else A)[bounds[j]:bounds[j + 1]])
                seq2.append(pth)
            provs = [("array-unpacked", A, False), ("array-packed", P, True),
                     ("file-unpacked", tmp / "u.npy", False), ("file-packed", tmp / "p.npy", True),
                     ("fileseq-packed", [tmp / "sa.npy", tmp / "sb.npy"], True),
                     (f"fileseq-{scheme}-{m}-parts", seq2, packed2)]
            res = []
            for name, prov, packed in provs:
                try:
                    ca = cluster_analysis(clusters, prov, n_features=nf, top=top, min_size=min_size,
                                          input_is_packed=packed)
                except Exception as e:
                    # (the files exist and hold exactly the fitted rows: an exception is a wrong answer)
                    r.bad.append({"suite": "analysis", "what": f"cluster_analysis with provider {name} raised "
                                  f"{type(e).__name__}: {str(e)[:120]} (case {k}: the same paths held other arrays "
                                  "in earlier cases)", "clusters": clusters[:5], "top": top, "min_size": min_size,
                                  "case_index": k})
                    continue
                try:
                    sz, isv = [int(s) for s in ca.sizes], [float(v).hex() for v in ca.isims]
                except KeyError:            # empty selection: the frame has no columns
                    sz, isv = [], []
                res.append((name, sz, isv,
                            int(ca.total_fps), int(ca.all_singletons_num),
                            int(ca.all_clusters_num_with_size_above(2)), len(clusters)))
            if len(res) < len(provs):
                continue
            for other in res[1:]:
                if other[1:] != res[0][1:]:
                    r.bad.append({"suite": "analysis", "what": f"provider {other[0]} gives a different analysis "
                                  f"than {res[0][0]}", "clusters": clusters[:5], "top": top, "min_size": min_size})
            name, sizes, isims, total, single, above2, ncl = res[0]
            # direct statement
            sel = []
            for i, c in enumerate(clusters):
                if len(c) < min_size or (top is not None and i >= top):
                    break
                sel.append(c)
            if sizes != [len(c) for c in sel] or total != sum(len(c) for c in clusters) \
                    or single != sum(1 for c in clusters if len(c) == 1) \
                    or above2 != sum(1 for c in clusters if len(c) > 2):
                r.bad.append({"suite": "analysis", "what": "sizes / global counts are wrong",
                              "clusters": clusters[:5], "top": top, "min_size": min_size})
            terms.append(
                f"let a := cluster_analysis {cnat(nf)} {clist(rows, cfpv)} {clist(clusters, czl)} "
                f"{copt(top, cz)} {cz(min_size)} in "
                f"zl_eqb (a_sizes a) {czl(sizes)} && fl_eqb (a_isims a) {clist([float.fromhex(h) for h in isims], cfloat)} && "
                f"(a_total a =? {cz(total)}) && (a_nclusters a =? {cz(ncl)}) && "
                f"(a_singletons a =? {cz(single)}) && (clusters_above a 2 =? {cz(above2)})")
            meta.append({"nf": nf, "n_rows": len(rows), "clusters": clusters[:4], "top": top, "min_size": min_size})
    out = eval_cases("analysis", PRE, terms, shard=100)
    r.cases = len(terms) * 5
    r.nontrivial = len({str(m) for m in meta})
    for m, o in zip(meta, out):
        if o.strip() != "true":
            r.bad.append({"suite": "analysis", "what": "model differs", **m})
    r.samples = [meta[0]]
    return r


def exact_chi(terms_, N):
    k = len(terms_)
    if k <= 1:
        return Fraction(0)
    b = sum(Fraction(n) * Fraction(t) ** 2 for n, t, _ in terms_)
    w = sum(Fraction(d) ** 2 for _, _, ds in terms_ for d in ds)
    if w == 0:
        return None
    return b * (N - k) / (w * (k - 1))


def exact_dbi(rows_terms, M, N):
    S = [sum(Fraction(d) for d in ds) / len(ds) for ds in rows_terms]
    num = Fraction(0)
    for i in range(len(S)):
        mx = Fraction(0)
        for j in range(len(S)):
            if i == j:
                continue
            if M[i][j] == 0:
                return None
            mx = max(mx, (S[i] + S[j]) / Fraction(M[i][j]))
        num += mx
    return num / N


def suite_indices(seed, tier):
    from bblean.metrics import jt_isim_chi, jt_dbi, jt_isim_dunn
    rng = random.Random(seed + 7)
    r = Result("indices")
    t_dunn, t_terms, meta = [], [], []
    n_cases = 40 if tier == "quick" else 800
    for k in range(n_cases):
        tall = k < (2 if tier == "quick" else 8)
        if tall:
            # tall clusters: column sums beyond the uint8 range. Even k: a small cluster first;
            # odd k: two clusters below 256 members whose sums together exceed 255 in the dense
            # columns, then a bigger one (a narrow accumulator wraps before it is widened)
            nf = 16
            sizes, dens = ([60, 300, 100], (0.5, 0.95, 0.3)) if k % 2 == 0 else ([200, 180, 300], (0.8, 0.8, 0.8))
            nrng = np.random.default_rng(rng.randint(0, 2 ** 31))
            A = np.vstack([(nrng.random((n, nf)) < p).astype(np.uint8) for n, p in zip(sizes, dens)])
            rows = A.tolist()
            b0, b1, b2 = sizes[0], sizes[0] + sizes[1], sum(sizes)
            clusters = [list(range(0, b0)), list(range(b0, b1)), list(range(b1, b2))]
        else:
            nf, rows, clusters = gen_clustering(rng)
        A = np.array(rows, dtype=np.uint8)
        cls = [c for c in clusters if len(c) >= 2][:6]          # Dunn: no singletons (open finding)
        if len(cls) < 2:
            continue
        U = [A[sorted(c)] for c in cls]
        Pk = [np.packbits(u, axis=1) for u in U]
        vals = {}
        for name, fn in (("dunn", jt_isim_dunn), ("chi", jt_isim_chi), ("dbi", jt_dbi)):
            vu = float(fn(U, input_is_packed=False))
            vp = float(fn(Pk, input_is_packed=True, n_features=nf))
            if not (vu == vp or (vu != vu and vp != vp)):
                r.bad.append({"suite": "indices", "what": f"{name}: packed {vp!r} != unpacked {vu!r}",
                              "clusters": cls})
            vals[name] = vu
            # permutations of clusters and of rows within a cluster
            import itertools
            perms = [list(q) for q in itertools.permutations(range(len(U)))] if tall else [None, None]
            for perm in perms:
                if perm is None:
                    perm = list(range(len(U)))
                    rng.shuffle(perm)
                U2 = []
                for i in perm:
                    idx = list(range(len(U[i])))
                    rng.shuffle(idx)
                    U2.append(U[i][idx])
                v2 = float(fn(U2, input_is_packed=False))
                tol = 0.0 if name == "dunn" else 1e-9 * max(1.0, abs(vu))
                if not (v2 == vu or abs(v2 - vu) <= tol or (v2 != v2 and vu != vu)):
                    r.bad.append({"suite": "indices", "what": f"{name} depends on the order of clusters/rows: "
                                  f"{vu!r} vs {v2!r}", "clusters": cls, "perm": perm})
        cl_rows = [[rows[i] for i in sorted(c)] for c in cls]
        t_dunn.append(f"feq_bits (dunn {cnat(nf)} {clist(cl_rows, lambda c: clist(c, cfpv))}) {cfloat(vals['dunn'])}")
        t_terms.append(f"(chi_terms {cnat(nf)} {clist(cl_rows, lambda c: clist(c, cfpv))}, "
                       f"dbi_terms {cnat(nf)} {clist(cl_rows, lambda c: clist(c, cfpv))})")
        meta.append({"nf": nf, "clusters": cls, "vals": vals, "N": sum(len(c) for c in cls)})
    out_d = eval_cases("dunn", PRE, t_dunn, shard=100)
    out_t = eval_cases("chiterms", PRE, t_terms, shard=50)
    r.cases = len(meta) * 3
    r.nontrivial = len({str(m["clusters"]) for m in meta})
    for m, od, ot in zip(meta, out_d, out_t):
        if od.strip() != "true":
            r.bad.append({"suite": "indices", "what": "Dunn differs from Model/Analysis.v", **m})
        if type(ot).__name__ == "Neutral":       # the model could not be evaluated (reported by the pipeline)
            continue
        chi_t, (dbi_rows, dbi_M) = parse_coq(ot)
        ex = exact_chi(chi_t, m["N"])
        if ex is not None and not math.isclose(m["vals"]["chi"], float(ex), rel_tol=1e-9, abs_tol=1e-12):
            r.bad.append({"suite": "indices", "what": f"CHI {m['vals']['chi']!r} is not the exact combination "
                          f"{float(ex)!r} of the model's terms", **m})
        ex = exact_dbi(dbi_rows, dbi_M, m["N"])
        if ex is not None and not math.isclose(m["vals"]["dbi"], float(ex), rel_tol=1e-9, abs_tol=1e-12):
            r.bad.append({"suite": "indices", "what": f"DBI {m['vals']['dbi']!r} is not the exact combination "
                          f"{float(ex)!r} of the model's terms", **m})
    r.samples = [{"nf": meta[0]["nf"], "clusters": meta[0]["clusters"][:3]}] if meta else []
    return r


def finding_dunn_singleton():
    """open finding: with a singleton cluster the Dunn index depends on the cluster order"""
    from bblean.metrics import jt_isim_dunn
    a = np.array([[1, 1, 0, 0], [1, 0, 0, 0], [1, 1, 1, 0]], dtype=np.uint8)
    b = np.array([[0, 0, 1, 1], [0, 1, 1, 1]], dtype=np.uint8)
    s = np.array([[1, 0, 1, 0]], dtype=np.uint8)
    v1 = float(jt_isim_dunn([s, a, b], input_is_packed=False))
    v2 = float(jt_isim_dunn([a, b, s], input_is_packed=False))
    return not (v1 == v2 or (v1 != v1 and v2 != v2))


def _dunn_tall(seed, tier=None):
    """tall clusters (narrow-dtype sums): the Dunn index over every order of three families"""
    import itertools
    from bblean.metrics import jt_isim_dunn
    rng = np.random.default_rng(seed)
    fam = [(rng.random((n, 32)) < p).astype(np.uint8) for n, p in ((300, 0.95), (100, 0.3), (60, 0.5))]
    vals = set()
    for perm in itertools.permutations(range(3)):
        vals.add(float(jt_isim_dunn([fam[i] for i in perm], input_is_packed=False)))
    if len(vals) > 1:
        return {"violation": f"Dunn depends on the order of (non-singleton) clusters: {sorted(vals)}",
                "cluster_sizes": [300, 100, 60], "dunn_seed": seed}
    return None


def search_c19(seed, tier, failures):
    import replay_util
    return replay_util.make_search([suite_analysis, suite_indices], extra=_dunn_tall)(seed, tier, failures)


def replay_c19(payload):
    import replay_util
    fi = payload.get("failing_input") or {}
    if "dunn_seed" in fi:
        return _dunn_tall(fi["dunn_seed"]) is None
    return replay_util.make_replay([suite_analysis, suite_indices])(payload)


if __name__ == "__main__":
    import sys
    for s in (suite_analysis, suite_indices):
        rr = s(int(sys.argv[1]) if len(sys.argv) > 1 else 1, sys.argv[2] if len(sys.argv) > 2 else "quick")
        print(rr.name, rr.cases, rr.nontrivial, len(rr.bad), rr.stats)
        for b in rr.bad[:4]:
            print(str(b)[:500])
    print("dunn finding reproduces:", finding_dunn_singleton())
