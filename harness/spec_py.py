"""Independent Python transcription of Model/Spec.v (the reference BitBIRCH insertion
procedure over member lists; every quantity recomputed from the members' fingerprints).
Used as the direct oracle of C07 when a proof obligation or correspondence breaks."""
import numpy as np


class Leaf:
    def __init__(self, bf):
        self.bf, self.es, self.leaf = bf, [], True


class Inner:
    def __init__(self, bf):
        self.bf, self.es, self.leaf = bf, [], False


def members(n):
    if n.leaf:
        return [i for e in n.es for i in e]
    return [i for c in n.es for i in members(c)]


class Spec:
    def __init__(self, data, nf, accept, thr, bf):
        self.D, self.nf, self.accept, self.thr, self.bf = data, nf, accept, thr, bf
        self.root = Leaf(bf)
        self.chain = [self.root]

    def csum(self, ids):
        if not ids:
            return np.zeros(self.nf, dtype=np.uint64)
        return np.sum([self.D[i] for i in ids], axis=0, dtype=np.uint64)

    def cent(self, ids):
        n = len(ids)
        s = self.csum(ids)
        if n <= 1:
            return (s != 0)
        return 2 * s.astype(object) >= n

    @staticmethod
    def sim(a, b):
        i = int(np.sum(a & b))
        d = max(int(np.sum(a)) + int(np.sum(b)) - i, 1)
        return np.float64(i) / np.float64(d)

    def entry_cents(self, n):
        return [np.asarray(self.cent(e if n.leaf else members(e)), dtype=bool) for e in n.es]

    def route(self, n, x):
        cx = np.asarray(self.cent(x), dtype=bool)
        sims = [self.sim(c, cx) for c in self.entry_cents(n)]
        return int(np.argmax(sims))

    def split(self, n):
        cents = self.entry_cents(n)
        m = len(cents)
        tot = np.sum([c.astype(np.int64) for c in cents], axis=0)
        c0 = (2 * tot >= m) if m > 1 else (tot != 0)
        f1 = int(np.argmin([self.sim(c, c0) for c in cents]))
        s1 = [self.sim(c, cents[f1]) for c in cents]
        f2 = int(np.argmin(s1))
        s2 = [self.sim(c, cents[f2]) for c in cents]
        mask = [(k == f1) or (s1[k] > s2[k]) for k in range(m)]
        a = Leaf(n.bf) if n.leaf else Inner(n.bf)
        b = n
        es = n.es
        a.es = [e for e, t in zip(es, mask) if t]
        b.es = [e for e, t in zip(es, mask) if not t]
        if n.leaf:
            self.chain.insert(self.chain.index(n), a)
        return a, b

    def insert(self, n, x):
        if n.leaf:
            if not n.es:
                n.es.append(list(x))
                return False
            i = self.route(n, x)
            old = n.es[i]
            so, sx = self.csum(old), self.csum(x)
            if self.accept(self.thr, so + sx, len(old) + len(x), so, sx, len(old), len(x)):
                n.es[i] = old + list(x)
                return False
            n.es.append(list(x))
            return len(n.es) > n.bf
        i = self.route(n, x)
        if self.insert(n.es[i], x):
            a, b = self.split(n.es[i])
            n.es[i] = a
            n.es.append(b)
        return len(n.es) > n.bf

    def add(self, x):
        if self.insert(self.root, x):
            a, b = self.split(self.root)
            r = Inner(self.bf)
            r.es = [a, b]
            self.root = r

    def clusters(self):
        cl = [e for leaf in self.chain for e in leaf.es]
        return sorted(cl, key=lambda e: len(e), reverse=True)     # stable


def reference_clusters(rows, cfg):
    import bblean._merges as M
    nf = len(rows[0])
    data = {i: np.array(r, dtype=bool) for i, r in enumerate(rows)}
    fn = M.get_merge_accept_fn(cfg["crit"], 0.05 if cfg["tol"] is None else cfg["tol"])
    sp = Spec(data, nf, fn, cfg["thr"], cfg["bf"])
    for i in range(len(rows)):
        sp.add([i])
    return sp.clusters()
