"""Suite `cpp` (C13): bblean/csrc/similarity.cpp, compiled UNMODIFIED from /repo's working tree
against the pybind11 stand-in of /verif/cpp and called through ctypes on aligned and misaligned
buffers, versus (a) the pure-NumPy fallback (the C13 statement itself, bit patterns) and
(b) Model/Cpp.v (correspondence of the loop-level model whose theorems Props/C13.v states)."""
import random
import sys
import warnings

import numpy as np

from common import cz, cnat, cfloat, clist, czl, cbool, copt, eval_cases, BUILD
from pipeline import Result

sys.path.insert(0, "/verif/cpp")
warnings.filterwarnings("ignore")

PRE = "From BB Require Import Model.ObsCpp.\nOpen Scope Z_scope.\n"
WIDTHS = [1, 2, 7, 8, 9, 16, 63, 64, 65, 128, 192, 256]
MISALIGN = [0, 0, 1, 4, 8, 33, 56]
_LIB = {}


def lib():
    """compile the CURRENT /repo source (every check run) and load it"""
    if "lib" not in _LIB:
        import cppkern
        out = BUILD / "cpp"
        out.mkdir(parents=True, exist_ok=True)
        _LIB["lib"] = cppkern.build(src="/repo/bblean/csrc/similarity.cpp", outdir=str(out))
    return _LIB["lib"]


def bits(x):
    x = float(x)
    return "nan" if x != x else x.hex()


def rows_term(X):
    return clist([[int(v) for v in r] for r in X], czl)


def rand_rows(rng, n, w):
    kind = rng.random()
    if kind < 0.15:
        X = np.zeros((n, w), dtype=np.uint8)
    elif kind < 0.3:
        X = np.full((n, w), 255, dtype=np.uint8)
    else:
        dens = rng.choice([0.05, 0.3, 0.5, 0.9])
        X = np.packbits((np.random.RandomState(rng.randrange(2 ** 31)).rand(n, w * 8) < dens), axis=1)
    if n > 1 and rng.random() < 0.3:
        X[rng.randrange(n)] = X[0]          # ties
    return np.ascontiguousarray(X, dtype=np.uint8)


def py():
    import bblean._py_similarity as P
    from bblean.fingerprints import unpack_fingerprints
    return P, unpack_fingerprints


def gen_ls(rng, L):
    """(linear sum, n): column sums of n binary rows, n up to 2^33 and beyond, incl. the
    exact n/2 boundary of the majority vote and values that make uint64 products wrap"""
    kind = rng.random()
    if kind < 0.35:
        n = rng.choice([0, 1, 2, 3, 4, 5, 7, 10, 255, 256, 65535, 65536])
    elif kind < 0.7:
        n = rng.choice([2 ** 31 - 1, 2 ** 32, 2 ** 32 + 1, 2 ** 33, 2 ** 33 + 1, 2 ** 33 + 12345])
    elif kind < 0.85:
        n = rng.choice([2 ** 52 + 1, 2 ** 53 + 1, 2 ** 53 + 2, 2 ** 62 + 3])
    else:
        n = rng.randrange(2, 5000)
    top = max(n, 1)
    ls = []
    for _ in range(L):
        k = rng.random()
        if k < 0.2:
            v = 0
        elif k < 0.35:
            v = top
        elif k < 0.6:
            v = min(top, max(0, n // 2 + rng.choice([-1, 0, 0, 1])))
        else:
            v = rng.randrange(0, top + 1)
        ls.append(v)
    return ls, n


def suite_cpp(seed, tier):
    import cppkern as ck
    r = Result("cpp")
    try:
        L = lib()
    except Exception as e:                       # the source no longer compiles as before
        r.error = f"similarity.cpp does not compile against the stand-in: {str(e)[-1500:]}"
        return r
    P, py_unpack = py()
    rng = random.Random(seed)
    scale = 1 if tier == "quick" else 12
    terms, meta = [], []
    stats = {"kernels": {}, "widths": {}, "misalign": {}, "fast_path_64": 0, "cpp_threw": 0}

    def count(kernel, w=None, m=None):
        stats["kernels"][kernel] = stats["kernels"].get(kernel, 0) + 1
        if w is not None:
            stats["widths"][w] = stats["widths"].get(w, 0) + 1
        if m is not None:
            stats["misalign"][m] = stats["misalign"].get(m, 0) + 1
            if m % 8 == 0 and w is not None and w % 64 == 0:
                stats["fast_path_64"] += 1

    def differ(kernel, what, inp):
        r.bad.append({"suite": "cpp", "what": f"{kernel}: C++ and Python fallback differ: {what}",
                      "kernel": kernel, "input": inp})

    # ---- popcount
    for _ in range(30 * scale):
        w, m, n = rng.choice(WIDTHS), rng.choice(MISALIGN), rng.randrange(1, 6)
        X = rand_rows(rng, n, w)
        got = [int(v) for v in ck.popcount_2d(X, misalign=m, lib=L)]
        got1 = int(ck.popcount_1d(X[0], misalign=m, lib=L))
        exp = [int(v) for v in np.atleast_1d(P._popcount(X))]
        count("popcount", w, m)
        inp = {"rows": X.tolist(), "misalign": m}
        if got != exp or got1 != exp[0]:
            differ("popcount", f"{got} / {got1} vs {exp}", inp)
        terms.append(f"chk_popcount {cbool(m % 8 == 0)} {rows_term(X)} {czl(got)}")
        meta.append(("popcount", inp))
    # ---- unpack
    for _ in range(30 * scale):
        w, m, n = rng.choice(WIDTHS[:9]), rng.choice(MISALIGN), rng.randrange(1, 4)
        X = rand_rows(rng, n, w)
        nf = rng.choice([None, None, 8 * w, 8 * rng.randrange(0, w + 1), 8 * w - rng.randrange(1, 8),
                         rng.randrange(0, 8 * w + 1), 8 * w + rng.randrange(1, 30), -8])
        inp = {"rows": X.tolist(), "n_features": nf, "misalign": m}
        count("unpack", w, m)
        try:
            got = ck.unpack(X, n_features=nf, misalign=m, lib=L)
            gl = [[int(v) for v in row] for row in got]
        except ck.KernelError:
            gl = None
            stats["cpp_threw"] += 1
        if gl is not None:
            exp = [[int(v) for v in row] for row in py_unpack(X, nf)]
            if gl != exp:
                differ("unpack", "values differ", inp)
        elif nf is None or nf >= 0:
            differ("unpack", "the compiled kernel throws where the fallback returns a value", inp)
        terms.append(f"chk_unpack {copt(nf, cz)} {rows_term(X)} "
                     f"{'None' if gl is None else '(Some ' + clist(gl, czl) + ')'}")
        meta.append(("unpack", inp))
    # ---- centroid_from_sum
    for _ in range(40 * scale):
        pack = rng.random() < 0.6
        Lls = rng.choice([1, 5, 8, 13, 16, 63, 64, 72])
        ls, n = gen_ls(rng, Lls)
        if n <= 1 and rng.random() < 0.5:       # sums that are not 0/1 although n_samples <= 1
            ls = [rng.choice([0, 1, 2, 255, 256, 257]) for _ in ls]
        m = rng.choice(MISALIGN)
        a = np.array(ls, dtype=np.uint64)
        inp = {"linear_sum": ls, "n": n, "pack": pack}
        count("centroid_from_sum")
        got = [int(v) for v in ck.centroid_from_sum(a, n, pack=pack, misalign=(m // 8) * 8, lib=L)]
        exp = [int(v) for v in P.centroid_from_sum(a, n, pack=pack)]
        if got != exp:
            differ("centroid_from_sum", f"{got} vs {exp}", inp)
        terms.append(f"chk_centroid {czl(ls)} {cz(n)} {cbool(pack)} (Some {czl(got)})")
        meta.append(("centroid_from_sum", inp))
    # ---- isim_from_sum
    for _ in range(40 * scale):
        ls, n = gen_ls(rng, rng.choice([1, 3, 8, 17, 64]))
        if rng.random() < 0.15:               # wrap-around of the uint64 accumulators
            ls = [rng.randrange(2 ** 63, 2 ** 64) for _ in ls]
        a = np.array(ls, dtype=np.uint64)
        inp = {"linear_sum": ls, "n": n}
        count("isim_from_sum")
        got = ck.isim_from_sum(a, n, lib=L)
        exp = P.jt_isim_from_sum(a, n)
        if bits(got) != bits(exp):
            differ("isim_from_sum", f"{bits(got)} vs {bits(exp)}", inp)
        terms.append(f"chk_isim {czl(ls)} {cz(n)} {cfloat(got)}")
        meta.append(("isim_from_sum", inp))
    # ---- array vs vector Tanimoto
    for _ in range(30 * scale):
        w, m, n = rng.choice(WIDTHS), rng.choice(MISALIGN), rng.randrange(1, 6)
        X = rand_rows(rng, n, w)
        y = X[rng.randrange(n)] if rng.random() < 0.4 else rand_rows(rng, 1, w)[0]
        inp = {"rows": X.tolist(), "vec": y.tolist(), "misalign": m}
        count("arr_vec", w, m)
        got = [float(v) for v in ck.sim_arr_vec(X, y, misalign=m, lib=L)]
        exp = [float(v) for v in P._jt_sim_arr_vec_packed(X, y)]
        if [bits(v) for v in got] != [bits(v) for v in exp]:
            differ("arr_vec", f"{got} vs {exp}", inp)
        terms.append(f"chk_arr_vec {cbool(m % 8 == 0)} {rows_term(X)} {czl([int(v) for v in y])} "
                     f"{clist(got, cfloat)}")
        meta.append(("arr_vec", inp))
    # ---- most dissimilar
    for _ in range(25 * scale):
        w, m, n = rng.choice([1, 2, 8, 9, 64, 65]), rng.choice(MISALIGN), rng.randrange(1, 9)
        X = rand_rows(rng, n, w)
        nf = rng.choice([None, None, 8 * w, 8 * w - 3, 8 * w - rng.randrange(0, 8), 8 * w - 8, 8 * w + 5])
        inp = {"rows": X.tolist(), "n_features": nf, "misalign": m}
        count("most_dissimilar", w, m)
        try:
            f1, f2, s1, s2 = ck.most_dissimilar(X, n_features=nf, misalign=m, lib=L)
            got = (int(f1), int(f2), [float(v) for v in s1], [float(v) for v in s2])
        except ck.KernelError:
            got = None
            stats["cpp_threw"] += 1
        py_ok = True
        try:
            e1, e2, t1, t2 = P.jt_most_dissimilar_packed(X, nf)
        except ValueError:                       # broadcasting error: centroid width != row width
            py_ok = False
        if got is None and py_ok and (nf is None or (nf + 7) // 8 == w):
            differ("most_dissimilar", "the compiled kernel throws where the fallback returns a value", inp)
        if got is not None and py_ok:
            exp = (int(e1), int(e2), [float(v) for v in t1], [float(v) for v in t2])
            if (got[0], got[1], [bits(v) for v in got[2]], [bits(v) for v in got[3]]) != \
               (exp[0], exp[1], [bits(v) for v in exp[2]], [bits(v) for v in exp[3]]):
                differ("most_dissimilar", f"{got[:2]} vs {exp[:2]}", inp)
        gt = "None" if got is None else \
            f"(Some ({cnat(got[0])}, {cnat(got[1])}, {clist(got[2], cfloat)}, {clist(got[3], cfloat)}))"
        terms.append(f"chk_dissim {cbool(m % 8 == 0)} {copt(nf, cz)} {rows_term(X)} {gt}")
        meta.append(("most_dissimilar", inp))

    # ---- add_rows / jt_isim_unpacked_u8 / jt_isim_packed_u8 (the three kernels that compose the others)
    import os
    have_k5 = os.path.exists(os.path.join(os.path.dirname(os.path.abspath(__file__)), "..", "coq", "Proofs", "CppMore.v"))
    for _ in range(20 * scale):
        w, m, n = rng.choice([1, 2, 3, 5, 8, 9, 16, 64, 65]), rng.choice(MISALIGN), rng.randrange(1, 7)
        X = rand_rows(rng, n, w)                      # arbitrary byte values (not only 0/1)
        if rng.random() < 0.5:
            X = (X & 1).astype(np.uint8)              # bit rows: the documented input
        inp = {"rows": X.tolist(), "misalign": m}
        count("add_rows", w, m)
        got = [int(v) for v in ck.add_rows(X, misalign=m, lib=L)]
        exp = [int(v) for v in X.sum(axis=0, dtype=np.uint64)]
        if got != exp:
            differ("add_rows", f"{got[:8]} vs {exp[:8]}", inp)
        if have_k5:
            terms.append(f"chk_add_rows {cnat(w)} {rows_term(X)} {czl(got)}")
            meta.append(("add_rows", inp))
        count("isim_unpacked", w, m)
        gi = ck.isim_unpacked(X, misalign=m, lib=L)
        ei = P.jt_isim_unpacked(X)
        if bits(gi) != bits(ei):
            differ("isim_unpacked", f"{bits(gi)} vs {bits(ei)}", inp)
        if have_k5:
            terms.append(f"chk_isim_unpacked {cnat(w)} {rows_term(X)} {cfloat(float(gi))}")
            meta.append(("isim_unpacked", inp))
    for _ in range(20 * scale):
        w, m, n = rng.choice([1, 2, 3, 8, 9, 64, 65]), rng.choice(MISALIGN), rng.randrange(1, 7)
        X = rand_rows(rng, n, w)
        nf = rng.choice([None, None, 8 * w, 8 * w - 3, 8 * w - rng.randrange(0, 8)])
        if nf is not None and nf <= 0:
            nf = None
        inp = {"rows": X.tolist(), "n_features": nf, "misalign": m}
        count("isim_packed", w, m)
        try:
            gp = ck.isim_packed(X, n_features=nf, misalign=m, lib=L)
        except ck.KernelError:
            gp = None
            stats["cpp_threw"] += 1
        try:
            ep = P.jt_isim_packed(X, nf)
        except Exception:
            ep = None
        if (gp is None) != (ep is None):
            differ("isim_packed", f"one side raises: C++ {gp!r}, fallback {ep!r}", inp)
        elif gp is not None and bits(gp) != bits(ep):
            differ("isim_packed", f"{bits(gp)} vs {bits(ep)}", inp)
        if have_k5:
            gt = "None" if gp is None else f"(Some {cfloat(float(gp))})"
            terms.append(f"chk_isim_packed {copt(nf, cz)} {rows_term(X)} {gt}")
            meta.append(("isim_packed", inp))

    out = eval_cases("cpp", PRE, terms, shard=40)
    r.cases = len(terms)
    r.nontrivial = len({str(m) for m in meta})
    for (k, inp), o in zip(meta, out):
        if o.strip() != "true":
            r.bad.append({"suite": "cpp", "what": f"{k}: compiled kernel differs from Model/Cpp.v",
                          "kernel": k, "input": inp})
    r.stats = stats
    r.samples = [{"kernel": meta[0][0], "input": {k: (v if not isinstance(v, list) else str(v)[:120])
                                                   for k, v in meta[0][1].items()}}]
    return r


# ------------------------------------------------------------------ end to end (extension "installed")
def suite_cpp_e2e(seed, tier):
    """emulates the build configuration 'extension present': the names that bblean takes from
    _cpp_similarity are replaced by ctypes-backed wrappers of the compiled source, a clustering is
    run, and compared with the same clustering on the pure-Python fallback"""
    import cppkern as ck
    import bblean.bitbirch as bbm
    import bblean.similarity as S
    import bblean._merges as M
    r = Result("cpp-e2e")
    try:
        L = lib()
    except Exception as e:
        r.error = f"similarity.cpp does not compile against the stand-in: {str(e)[-1500:]}"
        return r
    rng = random.Random(seed + 9)

    def c_arr_vec(x, y):
        return ck.sim_arr_vec(np.ascontiguousarray(x, dtype=np.uint8), np.ascontiguousarray(y, dtype=np.uint8),
                              misalign=None, misalign_v=ck.OWN, lib=L)

    def c_dissim(Y, n_features=None):
        return ck.most_dissimilar(np.ascontiguousarray(Y, dtype=np.uint8), n_features=n_features,
                                  misalign=None, lib=L)

    def c_isim(ls, n):
        return float(ck.isim_from_sum(np.ascontiguousarray(ls, dtype=np.uint64), int(n), misalign=None, lib=L))

    def c_unpack(a, n_features=None):
        return ck.unpack(np.ascontiguousarray(a, dtype=np.uint8), n_features=n_features, misalign=None, lib=L)

    patches = []
    for mod in (bbm, S, M):
        for name, fn in (("_jt_sim_arr_vec_packed", c_arr_vec), ("jt_most_dissimilar_packed", c_dissim),
                         ("jt_isim_from_sum", c_isim), ("_unpack_fingerprints", c_unpack)):
            if hasattr(mod, name):
                patches.append((mod, name, getattr(mod, name), fn))
    n_cases = 12 if tier == "quick" else 150
    evals = 0
    crits = ["radius", "diameter", "tolerance-diameter", "tolerance-radius", "tolerance-legacy"]
    for _ in range(n_cases):
        w = rng.choice([1, 2, 8, 16, 64])
        n = rng.randrange(5, 60)
        protos = rand_rows(rng, rng.randrange(1, 5), w)
        X = protos[[rng.randrange(len(protos)) for _ in range(n)]].copy()
        noise = np.packbits(np.random.RandomState(rng.randrange(2 ** 31)).rand(n, w * 8) < 0.08, axis=1)
        X ^= noise
        kw = {"threshold": rng.choice([0.3, 0.5, 0.65, 0.8]), "branching_factor": rng.choice([2, 3, 5, 50]),
              "merge_criterion": rng.choice(crits)}
        case = {"rows": X.tolist(), **kw}

        def run():
            bbm._global_merge_accept = None
            bb = bbm.BitBirch(**kw)
            bb.fit(X, input_is_packed=True, n_features=8 * w)
            ids = bb.get_cluster_mol_ids()
            cents = [c.tolist() for c in bb.get_centroids()]
            return [list(map(int, c)) for c in ids], cents
        ref = run()
        for mod, name, old, fn in patches:
            setattr(mod, name, fn)
        try:
            got = run()
        except Exception as e:
            got = f"{type(e).__name__}: {e}"
        finally:
            for mod, name, old, fn in patches:
                setattr(mod, name, old)
        evals += 1
        if got != ref:
            r.bad.append({"suite": "cpp-e2e", "what": "clustering with the compiled kernels differs from the "
                          "clustering with the Python fallback", "input": case,
                          "got": str(got)[:300], "expected": str(ref)[:300]})
    r.cases = evals
    r.nontrivial = evals
    r.stats = {"patched_names": sorted({f"{m.__name__}.{n}" for m, n, _, _ in patches})}
    r.samples = [{"patched": r.stats["patched_names"]}]
    return r


# ------------------------------------------------------------------ regression corpus (fixed defects)
def suite_cpp_corpus(seed, tier):
    """the witnesses of the three defects (four witnesses) repaired by 'fix:' commits (KNOWN_FINDINGS.txt) run first"""
    import cppkern as ck
    r = Result("cpp-corpus")
    try:
        L = lib()
    except Exception as e:
        r.error = f"similarity.cpp does not compile against the stand-in: {str(e)[-1500:]}"
        return r
    P, py_unpack = py()

    def probe(kernel, inp, f_cpp, f_py):
        r.cases += 1
        r.nontrivial += 1
        try:
            got = f_cpp()
        except ck.KernelError as e:
            got = f"throws {e}"
        exp = f_py()
        if got != exp:
            r.bad.append({"suite": "cpp-corpus", "what": f"{kernel}: C++ and Python fallback differ: {got} vs {exp}",
                          "kernel": kernel, "input": inp})
    a = np.array([157], dtype=np.uint8)
    probe("unpack", {"rows": [[157]], "n_features": 5, "misalign": 0},
          lambda: ck.unpack(a[None, :], n_features=5, lib=L).tolist(), lambda: py_unpack(a[None, :], 5).tolist())
    b = np.arange(8, dtype=np.uint8)
    probe("unpack", {"rows": [b.tolist()], "n_features": 128, "misalign": 0},
          lambda: ck.unpack(b[None, :], n_features=128, lib=L).tolist(), lambda: py_unpack(b[None, :], 128).tolist())
    c = np.array([3, 0, 3, 3, 0], dtype=np.uint64)
    for _ in range(50):
        probe("centroid_from_sum", {"linear_sum": c.tolist(), "n": 3, "pack": True},
              lambda: ck.centroid_from_sum(c, 3, pack=True, lib=L).tolist(),
              lambda: P.centroid_from_sum(c, 3, pack=True).tolist())
    d = np.array([2, 0, 0, 0, 0, 0, 0, 0], dtype=np.uint64)
    probe("centroid_from_sum", {"linear_sum": d.tolist(), "n": 1, "pack": True},
          lambda: ck.centroid_from_sum(d, 1, pack=True, lib=L).tolist(),
          lambda: P.centroid_from_sum(d, 1, pack=True).tolist())
    return r


# ------------------------------------------------------------------ many rows (cross-row accumulators)
def gen_many_rows(rng, n, w, col):
    """n packed rows of w bytes: a bulk family on the bits C = {col} + c-1 others, bit `col` set in EVERY row,
    and outliers whose similarities to the centroid are close to one another (a prefix-like row {col} and a
    row {col, one more bit of C, k foreign bits}), so that the result depends on every bit of the centroid"""
    nb = 8 * w
    others = [b for b in range(nb) if b != col]
    rng.shuffle(others)
    c = rng.randint(3, max(3, min(6, nb // 2)))
    C = [col] + others[:c - 1]
    foreign = others[c - 1:]
    X = np.zeros((n, nb), dtype=np.uint8)
    X[:, C] = 1
    k = min(len(foreign), rng.randint(c, c + 3))
    outl = [[col], [col, C[1]] + foreign[:k]]
    for _ in range(rng.randint(0, 4)):
        outl.append([col] + rng.sample(others, rng.randint(1, min(len(others), 6))))
    pos = rng.sample(range(n), len(outl))
    for p_, bits_ in zip(pos, outl):
        X[p_, :] = 0
        X[p_, bits_] = 1
    return np.packbits(X, axis=1)


def suite_cpp_large(seed, tier):
    """the most-dissimilar search on 255 .. 200000 rows (the kernel accumulates column sums across rows):
    compiled kernel against the Python fallback, bit for bit; no model term (the literals would be MBs)"""
    import cppkern as ck
    r = Result("cpp-large")
    try:
        L = lib()
    except Exception as e:
        r.error = f"similarity.cpp does not compile against the stand-in: {str(e)[-1500:]}"
        return r
    P, _ = py()
    rng = random.Random(seed + 17)
    ns = [255, 256, 257, 65535, 65536, 65537] + ([rng.randint(65538, 80000)] if tier == "quick"
                                                 else [70000, 131071, 131072, 131073, 200000])
    for n in ns:
        for w in ([1, 8] if tier == "quick" else [1, 2, 8, 64]):
            if n * w > 4_000_000:
                continue
            for col in sorted({0, 8 * w - 1, rng.randrange(8 * w)}):
                m = rng.choice(MISALIGN)
                case_seed = f"many-rows-{seed}-{n}-{w}-{col}"
                X = gen_many_rows(random.Random(case_seed), n, w, col)
                r.cases += 1
                inp = {"generator": "gen_many_rows", "n": n, "width": w, "all_rows_bit": col, "misalign": m,
                       "case_seed": case_seed}
                try:
                    f1, f2, s1, s2 = ck.most_dissimilar(X, n_features=None, misalign=m, lib=L)
                except ck.KernelError as e:
                    r.bad.append({"suite": "cpp-large", "what": f"most_dissimilar: the compiled kernel throws ({e}) "
                                  "where the fallback returns a value", "kernel": "most_dissimilar", "input": inp})
                    continue
                e1, e2, t1, t2 = P.jt_most_dissimilar_packed(X, None)
                same = (int(f1), int(f2)) == (int(e1), int(e2)) and \
                    np.array_equal(np.asarray(s1, dtype=np.float64).view(np.uint64), np.asarray(t1, dtype=np.float64).view(np.uint64)) and \
                    np.array_equal(np.asarray(s2, dtype=np.float64).view(np.uint64), np.asarray(t2, dtype=np.float64).view(np.uint64))
                if not same:
                    inp["rows_distinct"] = sorted({tuple(row) for row in X.tolist()})[:12]
                    r.bad.append({"suite": "cpp-large", "what": f"most_dissimilar: C++ and Python fallback differ on {n} "
                                  f"rows of {w} bytes that all have bit {col} set: (fp_1, fp_2) = {(int(f1), int(f2))} vs "
                                  f"{(int(e1), int(e2))}", "kernel": "most_dissimilar", "input": inp})
    r.nontrivial = r.cases
    r.stats = {"row_counts": ns}
    r.samples = [{"n": ns[0], "width": 1}]
    return r


# ------------------------------------------------------------------ search / replay
def search_c13(seed, tier, failures):
    for kind, d in failures:
        if isinstance(d, dict) and "what" in d and "Model/" not in d["what"]:
            return {"violation": d["what"], **{k: v for k, v in d.items() if k not in ("what", "suite")}}
    for s in (suite_cpp_large, suite_cpp, suite_cpp_e2e):
        try:
            rr = s(seed + 1, "thorough" if s is suite_cpp else "quick")
        except Exception:
            continue
        for d in rr.bad:
            if "Model/" not in d["what"]:
                return {"violation": d["what"], **{k: v for k, v in d.items() if k not in ("what", "suite")}}
    return None


def replay_c13(payload):
    """True = the property holds on the recorded input"""
    import cppkern as ck
    fi = payload.get("failing_input")
    if not fi or "input" not in fi:
        return True
    P, py_unpack = py()
    L = lib()
    k, inp = fi.get("kernel"), fi["input"]
    m = inp.get("misalign", 0)
    if inp.get("generator") == "gen_many_rows":
        X = gen_many_rows(random.Random(inp["case_seed"]), inp["n"], inp["width"], inp["all_rows_bit"])
        try:
            f1, f2, s1, s2 = ck.most_dissimilar(X, n_features=None, misalign=m, lib=L)
        except ck.KernelError:
            return False
        e1, e2, t1, t2 = P.jt_most_dissimilar_packed(X, None)
        return (int(f1), int(f2)) == (int(e1), int(e2)) and \
            [bits(float(v)) for v in s1] == [bits(float(v)) for v in t1] and \
            [bits(float(v)) for v in s2] == [bits(float(v)) for v in t2]
    if k == "popcount":
        X = np.array(inp["rows"], dtype=np.uint8)
        return [int(v) for v in ck.popcount_2d(X, misalign=m, lib=L)] == [int(v) for v in np.atleast_1d(P._popcount(X))]
    if k == "unpack":
        X = np.array(inp["rows"], dtype=np.uint8)
        nf = inp["n_features"]
        try:
            return ck.unpack(X, n_features=nf, misalign=m, lib=L).tolist() == py_unpack(X, nf).tolist()
        except ck.KernelError:
            return not (nf is None or nf >= 0)        # a throw is a violation where the fallback is defined
    if k == "centroid_from_sum":
        a = np.array(inp["linear_sum"], dtype=np.uint64)
        return ck.centroid_from_sum(a, inp["n"], pack=inp["pack"], lib=L).tolist() == \
            P.centroid_from_sum(a, inp["n"], pack=inp["pack"]).tolist()
    if k == "isim_from_sum":
        a = np.array(inp["linear_sum"], dtype=np.uint64)
        return bits(ck.isim_from_sum(a, inp["n"], lib=L)) == bits(P.jt_isim_from_sum(a, inp["n"]))
    if k == "arr_vec":
        X, y = np.array(inp["rows"], dtype=np.uint8), np.array(inp["vec"], dtype=np.uint8)
        return [bits(v) for v in ck.sim_arr_vec(X, y, misalign=m, lib=L)] == \
            [bits(v) for v in P._jt_sim_arr_vec_packed(X, y)]
    if k == "add_rows":
        X = np.array(inp["rows"], dtype=np.uint8)
        return [int(v) for v in ck.add_rows(X, misalign=m, lib=L)] == [int(v) for v in X.sum(axis=0, dtype=np.uint64)]
    if k == "isim_unpacked":
        X = np.array(inp["rows"], dtype=np.uint8)
        return bits(ck.isim_unpacked(X, misalign=m, lib=L)) == bits(P.jt_isim_unpacked(X))
    if k == "isim_packed":
        X = np.array(inp["rows"], dtype=np.uint8)
        nf = inp["n_features"]
        try:
            gp = ck.isim_packed(X, n_features=nf, misalign=m, lib=L)
        except ck.KernelError:
            gp = None
        try:
            ep = P.jt_isim_packed(X, nf)
        except Exception:
            ep = None
        return (gp is None) == (ep is None) and (gp is None or bits(gp) == bits(ep))
    if k == "most_dissimilar":
        X = np.array(inp["rows"], dtype=np.uint8)
        nf = inp["n_features"]
        try:
            f1, f2, s1, s2 = ck.most_dissimilar(X, n_features=nf, misalign=m, lib=L)
        except ck.KernelError:
            return not (nf is None or (nf + 7) // 8 == X.shape[1])
        try:
            e1, e2, t1, t2 = P.jt_most_dissimilar_packed(X, nf)
        except ValueError:
            return True
        return (int(f1), int(f2), [bits(v) for v in s1], [bits(v) for v in s2]) == \
            (int(e1), int(e2), [bits(v) for v in t1], [bits(v) for v in t2])
    return True


if __name__ == "__main__":
    import time
    t0 = time.time()
    which = sys.argv[3] if len(sys.argv) > 3 else "cpp"
    s = {"cpp": suite_cpp, "e2e": suite_cpp_e2e}[which]
    rr = s(int(sys.argv[1]) if len(sys.argv) > 1 else 1, sys.argv[2] if len(sys.argv) > 2 else "quick")
    print(rr.name, rr.cases, rr.nontrivial, len(rr.bad), rr.stats, rr.error, "%.1fs" % (time.time() - t0))
    for b in rr.bad[:6]:
        print(b["what"], str(b.get("input"))[:300])
    if which == "cpp":
        cr = suite_cpp_corpus(1, "quick")
        print(cr.name, cr.cases, len(cr.bad), [b["what"] for b in cr.bad[:4]])
