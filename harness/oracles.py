"""Direct Python oracles of the property statements, run on the implementation when a
proof obligation or a correspondence breaks (DESIGN §5 'search')."""
import itertools
import math
import random
import warnings
from fractions import Fraction

import numpy as np

warnings.filterwarnings("ignore")


# ------------------------------------------------------------------ C12
def c12_violation(rows, nf, unaligned=False):
    """Returns a description of what fails for this bit matrix, or None."""
    import bblean
    import bblean.similarity as S
    from suite_bits import misaligned
    A = np.array(rows, dtype=np.uint8).reshape(len(rows), nf)
    X = bblean.pack_fingerprints(A)
    if unaligned:
        X = misaligned(X)
    if not (bblean.unpack_fingerprints(X, nf) == A).all():
        return "unpack(pack(x)) != x"
    n = len(rows)
    for i in range(n):
        for j in range(n):
            a, b = A[i].astype(bool), A[j].astype(bool)
            inter, union = int((a & b).sum()), int((a | b).sum())
            v = float(S.jt_sim_packed(X[i], X[j]))
            if union > 0:
                if v != inter / union:   # correctly rounded quotient of two small ints
                    return f"sim({i},{j})={v!r} != {inter}/{union}"
            elif not (0.0 <= v <= 1.0):
                return f"sim of empty union {v!r} not in [0,1]"
            w = float(S.jt_sim_packed(X[j], X[i]))
            if v != w:
                return f"asymmetric sim({i},{j})"
    M = S.jt_sim_matrix_packed(X)
    for i in range(n):
        for j in range(n):
            if i != j and float(M[i, j]) != float(S.jt_sim_packed(X[i], X[j])):
                return f"matrix[{i},{j}] differs from pairwise"
    ls = A.sum(axis=0, dtype=np.uint64)
    c = S.centroid_from_sum(ls, n, pack=False)
    exp = [(1 if 2 * int(k) >= n else 0) for k in ls] if n > 1 else [int(k) for k in ls]
    if [int(x) for x in c] != exp:
        return "centroid is not the majority vote with ties set"
    cp = S.centroid_from_sum(ls, n, pack=True)
    if [int(x) for x in np.unpackbits(cp, count=nf)] != exp:
        return "packed centroid differs from unpacked centroid"
    f1, f2, s1, s2 = S.jt_most_dissimilar_packed(X, nf)
    if not (0 <= int(f1) < n and 0 <= int(f2) < n):
        return "most-dissimilar indices out of range"
    for k in range(n):
        if float(s1[k]) != float(S.jt_sim_packed(X[k], X[int(f1)])) or \
           float(s2[k]) != float(S.jt_sim_packed(X[k], X[int(f2)])):
            return "most-dissimilar similarities are not those to the reported rows"
    if n >= 3:
        idx, m = S.jt_isim_medoid(A, input_is_packed=False, pack=False)
        cs = S.jt_compl_isim(A, input_is_packed=False)
        if not (0 <= idx < n) or not (m == A[idx]).all():
            return "medoid is not a member"
        if not np.isnan(cs).any() and any(float(cs[k]) < float(cs[idx]) for k in range(n)):
            return "medoid does not minimise complementary similarity"
    return None


def search_c12(seed, tier, failures):
    from suite_bits import gen_cases
    # first: the disagreeing cases reported by the suite
    for kind, d in failures:
        if isinstance(d, dict) and "rows" in d:
            v = c12_violation(d["rows"], d["nf"], d.get("unaligned", False))
            if v:
                return {"rows": d["rows"], "nf": d["nf"], "unaligned": d.get("unaligned", False),
                        "violation": v}
    for rows, nf, una in gen_cases(seed + 1, "thorough" if tier == "thorough" else "quick"):
        v = c12_violation(rows, nf, una)
        if v:
            return {"rows": rows, "nf": nf, "unaligned": una, "violation": v}
    return None


def replay_c12(payload):
    fi = payload.get("failing_input")
    if not fi:
        return True
    return c12_violation(fi["rows"], fi["nf"], fi.get("unaligned", False)) is None
