"""Direct Python oracles of the property statements, run on the implementation when a
proof obligation or a correspondence breaks (DESIGN §5 'search')."""
import itertools
import math
import random
import warnings
from fractions import Fraction

import numpy as np

warnings.filterwarnings("ignore")


# ------------------------------------------------------------------ C12
def c12_violation(rows, nf, unaligned=False):
    """Returns a description of what fails for this bit matrix, or None."""
    import bblean
    import bblean.similarity as S
    from suite_bits import misaligned, with_layout
    A = np.array(rows, dtype=np.uint8).reshape(len(rows), nf)
    X = bblean.pack_fingerprints(A)
    qrow = None
    if unaligned is True:
        X = misaligned(X)
    elif isinstance(unaligned, str):
        X, qrow = with_layout(X, unaligned)
    if not (bblean.unpack_fingerprints(X, nf) == A).all():
        return "unpack(pack(x)) != x"
    n = len(rows)
    if qrow is not None:
        # array-vs-vector form with operands of different memory layouts
        for j in range(n):
            try:
                sv = S._jt_sim_arr_vec_packed(X, qrow(X[j]))
            except Exception as e:
                return f"similarity of a {unaligned} matrix / row pair raised {type(e).__name__}: {str(e)[:80]}"
            for i in range(n):
                a, b = A[i].astype(bool), A[j].astype(bool)
                inter, union = int((a & b).sum()), int((a | b).sum())
                if union > 0 and float(sv[i]) != inter / union:
                    return f"layout {unaligned}: sim(row {i}, row {j}) = {float(sv[i])!r} != {inter}/{union}"
    for i in range(n):
        for j in range(n):
            a, b = A[i].astype(bool), A[j].astype(bool)
            inter, union = int((a & b).sum()), int((a | b).sum())
            v = float(S.jt_sim_packed(X[i], X[j] if qrow is None else qrow(X[j])))
            if union > 0:
                if v != inter / union:   # correctly rounded quotient of two small ints
                    return f"sim({i},{j})={v!r} != {inter}/{union}"
            elif not (0.0 <= v <= 1.0):
                return f"sim of empty union {v!r} not in [0,1]"
            w = float(S.jt_sim_packed(X[j], X[i]))
            if v != w:
                return f"asymmetric sim({i},{j})"
    M = S.jt_sim_matrix_packed(X)
    for i in range(n):
        for j in range(n):
            if i != j and float(M[i, j]) != float(S.jt_sim_packed(X[i], X[j])):
                return f"matrix[{i},{j}] differs from pairwise"
    ls = A.sum(axis=0, dtype=np.uint64)
    c = S.centroid_from_sum(ls, n, pack=False)
    exp = [(1 if 2 * int(k) >= n else 0) for k in ls] if n > 1 else [int(k) for k in ls]
    if [int(x) for x in c] != exp:
        return "centroid is not the majority vote with ties set"
    from bblean.utils import min_safe_uint
    if [int(x) for x in S.centroid_from_sum(A.sum(axis=0, dtype=min_safe_uint(n)), n, pack=False)] != exp:
        return "centroid_from_sum on minimal-width sums is not the majority vote"
    if [int(x) for x in S.centroid(A, input_is_packed=False, pack=False)] != exp:
        return "centroid(fps) is not the majority vote with ties set"
    if [int(x) for x in np.unpackbits(S.centroid(X, input_is_packed=True, n_features=nf, pack=True), count=nf)] != exp:
        return "centroid(packed fps) is not the majority vote with ties set"
    cp = S.centroid_from_sum(ls, n, pack=True)
    if [int(x) for x in np.unpackbits(cp, count=nf)] != exp:
        return "packed centroid differs from unpacked centroid"
    f1, f2, s1, s2 = S.jt_most_dissimilar_packed(X, nf)
    if not (0 <= int(f1) < n and 0 <= int(f2) < n):
        return "most-dissimilar indices out of range"
    for k in range(n):
        if float(s1[k]) != float(S.jt_sim_packed(X[k], X[int(f1)])) or \
           float(s2[k]) != float(S.jt_sim_packed(X[k], X[int(f2)])):
            return "most-dissimilar similarities are not those to the reported rows"
    if n >= 3:
        idx, m = S.jt_isim_medoid(A, input_is_packed=False, pack=False)
        cs = S.jt_compl_isim(A, input_is_packed=False)
        if not (0 <= idx < n) or not (m == A[idx]).all():
            return "medoid is not a member"
        if not np.isnan(cs).any() and any(float(cs[k]) < float(cs[idx]) for k in range(n)):
            return "medoid does not minimise complementary similarity"
        # complementary similarity = iSIM of the set without that row (exact rational reference;
        # an all-empty remainder has iSIM 1); never NaN for three or more rows
        exact = []
        for k in range(n):
            rest = [int(v) for v in (ls - A[k].astype(np.uint64))]
            ex = exact_isim(rest, n - 1)
            exact.append(Fraction(1) if sum(rest) == 0 else ex)
            v = float(cs[k])
            if v != v:
                return f"complementary similarity of row {k} is NaN (exact value {float(exact[-1])!r})"
            if (n - 1) * sum(rest) < 2 ** 52 and Fraction(v) != Fraction(float(exact[-1])):
                return (f"complementary similarity of row {k} is {v!r}, the correctly rounded leave-one-out "
                        f"iSIM is {float(exact[-1])!r}")
        if exact[idx] != min(exact):
            return "medoid does not minimise the (exact) complementary similarity"
    return None


def search_c12(seed, tier, failures):
    from suite_bits import gen_cases
    # first: the disagreeing cases reported by the suite
    for kind, d in failures:
        if isinstance(d, dict) and "rows" in d:
            v = c12_violation(d["rows"], d["nf"], d.get("unaligned", False))
            if v:
                return {"rows": d["rows"], "nf": d["nf"], "unaligned": d.get("unaligned", False),
                        "violation": v}
    cases = gen_cases(seed + 1, "thorough" if tier == "thorough" else "quick")
    tall = [c for c in gen_cases(seed + 2, "thorough") if len(c[0]) >= 100]
    for rows, nf, una in tall + cases:
        v = c12_violation(rows, nf, una)
        if v:
            return {"rows": rows, "nf": nf, "unaligned": una, "violation": v}
    return None


def replay_c12(payload):
    fi = payload.get("failing_input")
    if not fi:
        return True
    return c12_violation(fi["rows"], fi["nf"], fi.get("unaligned", False)) is None


# ------------------------------------------------------------------ C11
def exact_isim(ks, n):
    num = sum(k * (k - 1) // 2 for k in ks)
    den = num + sum(k * (n - k) for k in ks)
    return Fraction(num, den) if den else None


def c11_violation(ks, n, bits=64):
    import bblean.similarity as S
    dt = {8: np.uint8, 16: np.uint16, 32: np.uint32, 64: np.uint64}[bits]
    a = np.array(ks, dtype=dt)
    if n < 2 or n * sum(ks) >= 2 ** 63 or max(ks + [0]) > n:
        return None
    v = float(S.jt_isim_from_sum(a, n))
    if sum(ks) == 0:
        return None if v == 1.0 else f"isim of all-empty set is {v!r}, expected 1"
    ex = exact_isim(ks, n)
    # correctly rounded in the exact regime, within 16 ulp-units of relative error above it
    if n * sum(ks) < 2 ** 52:
        if Fraction(v) != Fraction(float(ex)):
            return f"isim={v!r} differs from the correctly rounded exact value {float(ex)!r}"
    elif abs(Fraction(v) - ex) > ex * Fraction(16, 2 ** 53):
        return f"isim={v!r} farther than 16*2^-53 (relative) from the exact value {float(ex)!r}"
    # radius complement through its defining identity (exact rational arithmetic)
    c = [1 if 2 * k >= n else 0 for k in ks] if n > 1 else list(ks)
    ks1 = [k + b for k, b in zip(ks, c)]
    e1 = exact_isim(ks1, n + 1) if sum(ks1) else Fraction(1)
    rc_exact = (e1 * (n + 1) - ex * (n - 1)) / 2
    rc = float(S.jt_isim_radius_compl_from_sum(a, n))
    if abs(Fraction(rc) - rc_exact) > Fraction(1, 10 ** 6) * (1 + abs(rc_exact)) * max(1, n) / 2 ** 20 + Fraction(n, 2 ** 40):
        return f"radius complement {rc!r} differs from its defining identity {float(rc_exact)!r}"
    if float(S.jt_isim_radius_from_sum(a, n)) != 1 - rc:
        return "radius != 1 - radius complement"
    if float(S.jt_isim_diameter_from_sum(a, n)) != 1 - v:
        return "diameter != 1 - isim"
    return None


def c11_rows_violation(rows):
    """from-fingerprints statements of C11 on a bit matrix: packed = unpacked, and each complementary
    similarity equals the iSIM of the set with that row removed (1 if the rest is empty)"""
    import bblean.similarity as S
    A = np.array(rows, dtype=np.uint8)
    nr, nf = A.shape
    P = np.packbits(A, axis=1)
    for nm, fn in [("jt_isim", S.jt_isim), ("jt_isim_diameter", S.jt_isim_diameter),
                   ("jt_isim_radius", S.jt_isim_radius), ("jt_isim_radius_compl", S.jt_isim_radius_compl)]:
        u, p = float(fn(A, input_is_packed=False)), float(fn(P, input_is_packed=True, n_features=nf))
        if not (u == p or (u != u and p != p)):
            return f"{nm}: packed {p!r} != unpacked {u!r}"
    if nr >= 3:
        cu = S.jt_compl_isim(A, input_is_packed=False)
        ls_all = A.sum(axis=0, dtype=np.int64)
        for k in range(nr):
            rest = [int(v) for v in (ls_all - A[k])]
            ex = Fraction(1) if sum(rest) == 0 else exact_isim(rest, nr - 1)
            v = float(cu[k])
            if v != v or ((nr - 1) * sum(rest) < 2 ** 52 and Fraction(v) != Fraction(float(ex))):
                return (f"complementary similarity of row {k} is {v!r}, the iSIM of the set without that row "
                        f"is {float(ex)!r}")
    return None


def search_c11(seed, tier, failures):
    from suite_isim import gen_cases
    for kind, d in failures:
        if isinstance(d, dict) and "rows" in d:
            v = c11_rows_violation(d["rows"])
            if v:
                return {"rows": d["rows"], "violation": v}
    for kind, d in failures:
        if isinstance(d, dict) and "ks" in d:
            v = c11_violation(d["ks"], d["n"], d.get("dtype_bits", 64))
            if v:
                return {"ks": d["ks"], "n": d["n"], "dtype_bits": d.get("dtype_bits", 64), "violation": v}
    for ks, n, bits in gen_cases(seed + 1, tier):
        v = c11_violation(ks, n, bits)
        if v:
            return {"ks": ks, "n": n, "dtype_bits": bits, "violation": v}
    return None


def replay_c11(payload):
    fi = payload.get("failing_input")
    if not fi:
        return True
    if "rows" in fi:
        return c11_rows_violation(fi["rows"]) is None
    return c11_violation(fi["ks"], fi["n"], fi.get("dtype_bits", 64)) is None


# ------------------------------------------------------------------ C10
def c10_call(crit, tol, thr, old, old_n, nom, nom_n, obj=None):
    import bblean._merges as M
    from bblean.utils import min_safe_uint
    new = [a + b for a, b in zip(old, nom)]
    new_n = old_n + nom_n
    if obj is None:
        obj = M.get_merge_accept_fn(crit, 0.05 if tol is None else tol)
    return bool(obj(thr, np.array(new, dtype=min_safe_uint(new_n)), new_n,
                    np.array(old, dtype=min_safe_uint(old_n)),
                    np.array(nom, dtype=min_safe_uint(nom_n)), old_n, nom_n))


def c10_exact_violation(crit, thr, new, new_n, accepted):
    """`acceptance implies statistic >= threshold` against the EXACT statistic of the merged cluster
    (rational arithmetic on the column counts; nothing of the implementation is used)"""
    from fractions import Fraction
    if not accepted or new_n < 2 or crit == "never-merge":
        return None
    if sum(new) == 0:
        return None
    import oracles_hist
    exact = oracles_hist.exact_rcompl(new, new_n) if "radius" in crit else oracles_hist.exact_isim(new, new_n)
    if exact is None:
        return None
    if float(exact) < thr - 1e-9:
        return (f"{crit} accepted at threshold {thr!r} but the exact statistic of the merged cluster "
                f"(n = {new_n}, column counts {new[:6]}{'...' if len(new) > 6 else ''}) is {float(exact)!r}")
    return None


def c10_violation(case, history=()):
    """Laws of C10 on the real callables for one argument tuple; `history` is a list of
    earlier argument tuples fed to the same object first (purity)."""
    import bblean._merges as M
    import bblean.similarity as S
    crit, tol, thr, old, old_n, nom, nom_n = case[:7]
    fresh = c10_call(crit, tol, thr, old, old_n, nom, nom_n)
    obj = M.get_merge_accept_fn(crit, 0.05 if tol is None else tol)
    for h in history:
        c10_call(h[0], h[1], h[2], h[3], h[4], h[5], h[6], obj)
    used = c10_call(crit, tol, thr, old, old_n, nom, nom_n, obj)
    if used != fresh:
        return f"impure: fresh object says {fresh}, object with call history says {used}"
    if crit == "never-merge" and fresh:
        return "never-merge accepted"
    # the same sums and counts handed over as uint64 arrays (the tree stores them in the narrowest width that
    # holds the count; the value of the criterion may not depend on that representation)
    wide = bool(M.get_merge_accept_fn(crit, 0.05 if tol is None else tol)(
        thr, np.array([a + b for a, b in zip(old, nom)], dtype=np.uint64), old_n + nom_n,
        np.array(old, dtype=np.uint64), np.array(nom, dtype=np.uint64), old_n, nom_n))
    if wide != fresh:
        return (f"not a function of the sums and counts: {fresh} with the sums in their narrowest unsigned "
                f"dtype, {wide} with the same sums as uint64")
    new = np.array([a + b for a, b in zip(old, nom)], dtype=np.uint64)
    new_n = old_n + nom_n
    stat = S.jt_isim_radius_compl_from_sum if "radius" in crit else S.jt_isim_from_sum
    sv = float(stat(new, new_n))
    if fresh and sv == sv and sv < thr:
        return f"accepted although statistic {sv!r} < threshold {thr!r}"
    ev = c10_exact_violation(crit, thr, [int(x) for x in new], new_n, fresh)
    if ev:
        return ev
    if fresh:
        for t2 in (thr / 2, 0.0, float(np.nextafter(thr, -1.0))):
            if t2 <= thr and not c10_call(crit, tol, t2, old, old_n, nom, nom_n):
                return f"accepted at {thr!r} but rejected at lower threshold {t2!r}"
    if crit in ("tolerance-diameter", "tolerance-radius") and fresh and old_n > 1:
        # the same law against the exact statistics (nothing of the implementation involved)
        import oracles_hist
        ex = oracles_hist.exact_rcompl if "radius" in crit else oracles_hist.exact_isim
        e_new, e_old = float(ex([int(x) for x in new], new_n)), float(ex([int(x) for x in old], old_n))
        slack = max((0.05 if tol is None else tol) * (math.exp(-1e-3 * old_n) - math.exp(-1.0)), 0.0)
        if e_new < e_old - slack - 1e-9:
            return (f"{crit} accepted although the exact merged statistic {e_new!r} < exact old statistic "
                    f"{e_old!r} - slack {slack!r}")
    if crit in ("tolerance-diameter", "tolerance-radius"):
        base = sv >= thr
        if old_n == 1 and fresh != base:
            return "singleton old cluster: tolerance variant differs from base criterion"
        if old_n >= 1000 and old_n > 1:
            ov = float(stat(np.array(old, dtype=np.uint64), old_n))
            if fresh != (base and sv >= ov):
                return "old cluster >= 1000: slack should be zero"
        if old_n > 1 and fresh:
            ov = float(stat(np.array(old, dtype=np.uint64), old_n))
            slack = max((0.05 if tol is None else tol) * (math.exp(-1e-3 * old_n) - math.exp(-1.0)), 0.0)
            if sv < ov - slack - 1e-12:
                return f"accepted although merged statistic {sv!r} < old {ov!r} - slack {slack!r}"
    return None


def search_c10(seed, tier, failures):
    hist_cases = []
    for kind, d in failures:
        if isinstance(d, dict) and "case" in d:
            hist_cases.append(d["case"])
    for c in hist_cases:
        v = c10_violation(c)
        if v:
            return {"case": list(c[:7]), "history": [], "violation": v}
    # purity with call history: every disagreeing case preceded by the others
    for c in hist_cases:
        others = [h for h in hist_cases if h is not c and h[0] == c[0]][:30]
        v = c10_violation(c, others)
        if v:
            return {"case": list(c[:7]), "history": [list(h[:7]) for h in others], "violation": v}
    import itertools
    rng = random.Random(seed + 5)
    groups = {}
    for n in (4, 5, 6):
        for ks in itertools.combinations_with_replacement(range(n + 1), 3):
            groups.setdefault((n, sum(ks), sum(k * k for k in ks)), []).append(list(ks))
    import hist
    for (n, _, _), vs in groups.items():
        if len(vs) < 2:
            continue
        for crit in hist.CRITS:
            for nom in ([1, 0, 1], [0, 1, 0], [1, 1, 1]):
                for tol, thr in ((0.05, 0.1), (0.0, 0.3), (1.0, 0.0)):
                    cs = [(crit, tol if crit in hist.HAS_TOL else None, thr, o, n, nom, 1) for o in vs[:3]]
                    for i, c in enumerate(cs):
                        v = c10_violation(c, [x for j, x in enumerate(cs) if j != i])
                        if v:
                            return {"case": list(c), "history": [list(x) for j, x in enumerate(cs) if j != i],
                                    "violation": v}
    import bblean.similarity as S
    # counts at the top of a counter width (255 / 65535 members, as old or as merged cluster) with columns set in
    # ALL members: narrow-width arithmetic on the stored sums wraps exactly there
    for _ in range(200 if tier == "quick" else 2000):
        nfeat = rng.choice([3, 5, 8, 30])
        top = rng.choice([255, 255, 65535])
        nom_n = rng.choice([1, 1, 2, 60])
        old_n = rng.choice([top, top, top - nom_n, top - 1, top + 1])
        full = rng.randint(1, max(1, nfeat // 2))
        old = [old_n] * full + [rng.choice([0, old_n // 2, old_n - 1, rng.randint(0, old_n)]) for _ in range(nfeat - full)]
        nom = [rng.choice([nom_n, nom_n, 0, rng.randint(0, nom_n)]) for _ in range(nfeat)]
        new = np.array([a + b for a, b in zip(old, nom)], dtype=np.uint64)
        a = float(S.jt_isim_from_sum(new, old_n + nom_n))
        b = float(S.jt_isim_radius_compl_from_sum(new, old_n + nom_n))
        for thr in (0.1, 0.3, a, b, float(np.nextafter(min(a, b), -1.0))):
            if not (0.0 <= thr <= 1.0):
                continue
            for crit in hist.CRITS:
                c = (crit, 0.05 if crit in hist.HAS_TOL else None, thr, old, old_n, nom, nom_n)
                v = c10_violation(c)
                if v:
                    return {"case": list(c), "history": [], "violation": v}
    # thresholds placed around the two statistics of the merged cluster (sparse, incoherent
    # clusters separate iSIM and radius complement the most)
    import bblean.similarity as S
    for _ in range(600 if tier == "quick" else 6000):
        nfeat = rng.choice([4, 8, 16, 24])
        old_n = rng.randint(1, 6)
        dens = rng.choice([0.1, 0.2, 0.4, 0.7])
        rows = [[1 if rng.random() < dens else 0 for _ in range(nfeat)] for _ in range(old_n + 1)]
        old = [sum(r[j] for r in rows[:-1]) for j in range(nfeat)]
        nom = rows[-1]
        new = np.array([a + b for a, b in zip(old, nom)], dtype=np.uint64)
        a = float(S.jt_isim_from_sum(new, old_n + 1))
        b = float(S.jt_isim_radius_compl_from_sum(new, old_n + 1))
        if a != a or b != b:
            continue
        for thr in {(a + b) / 2, float(np.nextafter(a, 2.0)), float(np.nextafter(b, 2.0)), a, b,
                    float(np.nextafter(a, -1.0)), float(np.nextafter(b, -1.0))}:
            if not (0.0 <= thr <= 1.0):
                continue
            for crit in hist.CRITS:
                c = (crit, 0.05 if crit in hist.HAS_TOL else None, thr, old, old_n, nom, 1)
                v = c10_violation(c)
                if v:
                    return {"case": list(c), "history": [], "violation": v}
    return None


def replay_c10(payload):
    fi = payload.get("failing_input")
    if not fi:
        return True
    return c10_violation(tuple(fi["case"]), [tuple(h) for h in fi.get("history", [])]) is None
