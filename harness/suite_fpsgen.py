"""Suite `fps-gen` (C16): the workers of `bb fps-from-smiles` against Model/FpsGen.v.
The real _FingerprintArrayFiller.__call__ is run in this process on real shared-memory blocks
and the real _FingerprintFileCreator.__call__ on a real directory, the calls made in an
arbitrary order (a pool is free to pick any); the block, the mask, the files and the in-process
API result are compared with the model, and directly with the C16 statement (the valid entries'
fingerprints in input order, the others reported by index).  RDKit is the oracle `fp_of`: the
table of per-SMILES fingerprints is computed one SMILES at a time."""
import random
import tempfile
import warnings
from multiprocessing import shared_memory as shmem
from pathlib import Path

import numpy as np

from common import cz, cnat, clist, czl, copt, eval_cases
from pipeline import Result
from suite_fps import SMILES_OK, SMILES_BAD, cstr

warnings.filterwarnings("ignore")
PRE = ("From BB Require Import Model.FpsGen.\nFrom Coq Require Import String.\n"
       "Open Scope Z_scope.\n"
       "Definition zl_eqb := list_eqb Z.eqb.\n"
       "Definition ozl_eqb (a b : option (list Z)) := match a, b with Some x, Some y => zl_eqb x y "
       "| None, None => true | _, _ => false end.\n"
       "Definition tab (t : list (option (list Z))) (s : Z) : option (list Z) := nth (Z.to_nat s) t None.\n")


def quiet():
    from rdkit import RDLogger
    RDLogger.DisableLog("rdApp.*")


def suite_fpsgen(seed, tier):
    from bblean.fingerprints import (fps_from_smiles, _FingerprintArrayFiller, _FingerprintFileCreator)
    from bblean.smiles import _iter_ranges_and_smiles_batches, _iter_idxs_and_smiles_batches
    quiet()
    rng = random.Random(seed + 41)
    r = Result("fps-gen")
    pool = SMILES_OK + SMILES_BAD
    NF = 64
    table = {}
    for pack in (True, False):
        for k, smi in enumerate(pool):
            fp, inv = fps_from_smiles([smi], n_features=NF, skip_invalid=True, pack=pack)
            table[(pack, k)] = None if len(inv) else [int(x) for x in fp[0]]
    terms, meta = [], []
    n_cases = 40 if tier == "quick" else 600
    with tempfile.TemporaryDirectory(prefix="verif_fpsgen_") as tmp:
        tmp = Path(tmp)
        for case in range(n_cases):
            m = rng.randint(1, 26)
            ids = [rng.randrange(len(SMILES_OK)) for _ in range(m)]
            style = case % 4          # invalid entries: none / anywhere / at every batch boundary / only late
            npb = rng.randint(1, max(1, m))
            if style == 1:
                for _ in range(rng.randint(1, 3)):
                    ids[rng.randrange(m)] = len(SMILES_OK) + rng.randrange(len(SMILES_BAD))
            elif style == 2:
                for pos in list(range(0, m, npb)) + list(range(npb - 1, m, npb)) + [m - 1]:
                    if rng.random() < 0.6:
                        ids[pos] = len(SMILES_OK) + rng.randrange(len(SMILES_BAD))
            elif style == 3:
                for pos in range(m // 2, m):
                    if rng.random() < 0.35:
                        ids[pos] = len(SMILES_OK) + rng.randrange(len(SMILES_BAD))
            smiles = [pool[i] for i in ids]
            pack = rng.random() < 0.5
            width = NF // 8 if pack else NF
            info = {"smiles": smiles, "num_per_batch": npb, "pack": pack}
            src = tmp / f"in{case}.smi"
            src.write_text("".join(s + "\n" for s in smiles))
            want_rows = [table[(pack, i)] for i in ids if table[(pack, i)] is not None]
            want_inv = [k for k, i in enumerate(ids) if table[(pack, i)] is None]
            tab = clist([table[(pack, k)] for k in range(len(pool))], lambda v: copt(v, czl))
            # ---------------- the array filler, calls in arbitrary order
            tasks = [((int(a), int(b)), [s.strip() for s in batch])
                     for (a, b), batch in _iter_ranges_and_smiles_batches([src], npb)]
            order = list(range(len(tasks)))
            rng.shuffle(order)
            info["call_order"] = order
            blk = shmem.SharedMemory(create=True, size=max(1, m * width))
            msk = shmem.SharedMemory(create=True, size=max(1, m))
            try:
                filler = _FingerprintArrayFiller(shmem_name=blk.name, invalid_mask_shmem_name=msk.name,
                                                 kind="ecfp4", fp_size=NF, num_smiles=m, dtype="uint8",
                                                 pack=pack, sanitize="all", skip_invalid=True)
                err = None
                for k in order:
                    try:
                        filler(tasks[k][0], tuple(s + "\n" for s in tasks[k][1]))
                    except Exception as e:
                        err = f"{type(e).__name__}: {e}"[:200]
                        break
                fps = np.ndarray((m, width), dtype=np.uint8, buffer=blk.buf).copy()
                mask = np.ndarray((m,), dtype=np.bool_, buffer=msk.buf).copy()
            finally:
                blk.close(), blk.unlink(), msk.close(), msk.unlink()
            if err:
                r.bad.append({"suite": "fps-gen", "what": f"array filler raised {err}", **info})
                continue
            got_rows = np.delete(fps, mask, axis=0).tolist()
            got_inv = [int(i) for i in mask.nonzero()[0]]
            if got_rows != want_rows or got_inv != want_inv:
                r.bad.append({"suite": "fps-gen", "what": "block filled by the array-filler calls, with the masked "
                              "rows deleted, is not the fingerprints of the valid SMILES in input order / the mask "
                              f"does not mark the invalid entries: reported {got_inv}, invalid are {want_inv}; "
                              f"{len(got_rows)} rows kept, {len(want_rows)} valid", **info})
            idt = {s: k for k, s in enumerate(pool)}
            t_tasks = clist([tasks[k] for k in order],
                            lambda t: f"(({cz(t[0][0])}, {cz(t[0][1])}), {czl([idt[s] for s in t[1]])})")
            zero = czl([0] * width)
            chk_fill = (f"match run_fillers (tab {tab}) {zero} {t_tasks} {cnat(m)} with Some b => "
                        f"list_eqb zl_eqb (sh_fps b) {clist(fps.tolist(), czl)} && "
                        f"list_eqb Bool.eqb (sh_mask b) {clist([bool(x) for x in mask], lambda b: 'true' if b else 'false')} "
                        f"| None => false end")
            # ---------------- the file creator, calls in arbitrary order
            itasks = [(int(i), [s.strip() for s in batch]) for i, batch in _iter_idxs_and_smiles_batches([src], npb)]
            digits = rng.choice([len(str(len(itasks))), len(str(len(itasks))) + 1])
            out = tmp / f"out{case}"
            out.mkdir()
            creator = _FingerprintFileCreator(dtype="uint8", out_dir=out, out_name="x", digits=digits, pack=pack,
                                              kind="ecfp4", n_features=NF, sanitize="all", skip_invalid=True,
                                              verbose=False)
            iorder = list(range(len(itasks)))
            rng.shuffle(iorder)
            err = None
            for k in iorder:
                try:
                    creator((itasks[k][0], tuple(s + "\n" for s in itasks[k][1])))
                except Exception as e:
                    err = f"{type(e).__name__}: {e}"[:200]
                    break
            if err:
                r.bad.append({"suite": "fps-gen", "what": f"file creator raised {err}", **info})
                continue
            files = sorted(out.glob("*.npy"), key=lambda p: p.name)
            cat = [row for f in files for row in np.load(f).tolist()]
            if cat != want_rows:
                r.bad.append({"suite": "fps-gen", "what": "files written by the file-creator calls, concatenated in "
                              "name order, are not the fingerprints of the valid SMILES in input order",
                              "digits": digits, **info})
            t_it = clist([itasks[k] for k in iorder], lambda t: f"({cz(t[0])}, {czl([idt[s] for s in t[1]])})")
            chk_files = (f"list_eqb ozl_eqb (cli_multi_file (tab {tab}) \"x\"%string (Some {cz(digits)}) {t_it}) "
                         f"{clist(cat, lambda v: '(Some ' + czl(v) + ')')} && "
                         f"list_eqb String.eqb (map fst (sort_by_name (map (create_file (tab {tab}) \"x\"%string "
                         f"(Some {cz(digits)})) {t_it}))) {clist([f.name for f in files], cstr)}")
            for f in files:
                f.unlink()
            # ---------------- the in-process API
            a_rows, a_inv = fps_from_smiles(smiles, n_features=NF, skip_invalid=True, pack=pack)
            if a_rows.tolist() != want_rows or [int(i) for i in a_inv] != want_inv:
                r.bad.append({"suite": "fps-gen", "what": "fps_from_smiles(skip_invalid=True) is not the valid "
                              "entries in order with the others reported by index", **info})
            t_ids = czl(ids)
            chk_api = (f"(let '(rows, inv) := api_fps_from_smiles (tab {tab}) {t_ids} in "
                       f"list_eqb ozl_eqb rows {clist(a_rows.tolist(), lambda v: '(Some ' + czl(v) + ')')} && "
                       f"zl_eqb inv {czl([int(i) for i in a_inv])})")
            terms.append(f"({chk_fill}) && ({chk_files}) && {chk_api}")
            meta.append(info)
            src.unlink()
    out = eval_cases("fpsgen", PRE, terms, shard=100)
    for mm, o in zip(meta, out):
        if o.strip() != "true":
            r.bad.append({"suite": "fps-gen", "what": "model differs (Model/FpsGen.v: run_fillers / cli_multi_file / "
                          "api_fps_from_smiles)", **mm})
    r.cases = len(terms)
    r.nontrivial = len({str(mm) for mm in meta if len(mm["smiles"]) > mm["num_per_batch"]})
    r.stats = {"with_invalid": sum(1 for mm in meta if any(s in SMILES_BAD for s in mm["smiles"])),
               "several_batches": sum(1 for mm in meta if len(mm["smiles"]) > mm["num_per_batch"]),
               "packed": sum(1 for mm in meta if mm["pack"])}
    r.samples = meta[:1]
    return r


if __name__ == "__main__":
    import sys
    rr = suite_fpsgen(int(sys.argv[1]) if len(sys.argv) > 1 else 1, sys.argv[2] if len(sys.argv) > 2 else "quick")
    print(rr.name, rr.cases, rr.nontrivial, len(rr.bad), rr.stats)
    for b in rr.bad[:4]:
        print(str(b)[:600])
