"""Suite `isim` (C11, C03, C10 kernels): iSIM-from-sum family, implementation vs
Model/Sim.v (bit patterns), over count vectors in every unsigned dtype that can hold
them, incl. the width boundaries and magnitudes up to (and beyond) 2^63."""
import itertools
import random
import warnings

import numpy as np

from common import cz, cfloat, clist, czl, cfpv, cnat, eval_cases
from pipeline import Result

warnings.filterwarnings("ignore")
PRE = "From BB Require Import Model.ObsBits.\nOpen Scope Z_scope.\n"
DT = {8: np.uint8, 16: np.uint16, 32: np.uint32, 64: np.uint64}


def fits(bits, n, ks):
    return max([n] + ks) < 2 ** bits if bits < 64 else max([n] + ks) < 2 ** 64


def impl_obs(ks, n, bits):
    import bblean.similarity as S
    a = np.array(ks, dtype=DT[bits])
    return {"isim": float(S.jt_isim_from_sum(a, n)),
            "rcompl": float(S.jt_isim_radius_compl_from_sum(a, n)),
            "radius": float(S.jt_isim_radius_from_sum(a, n)),
            "diam": float(S.jt_isim_diameter_from_sum(a, n))}


def obs_term(o):
    return (f"(mkIsimObs {cfloat(o['isim'])} {cfloat(o['rcompl'])} {cfloat(o['radius'])} "
            f"{cfloat(o['diam'])})")


def gen_cases(seed, tier):
    rng = random.Random(seed)
    cases = []
    nmax, wmax = (3, 3) if tier == "quick" else (4, 4)
    for n in range(2, nmax + 1):
        for w in range(1, wmax + 1):
            for ks in itertools.product(range(n + 1), repeat=w):
                cases.append((list(ks), n, rng.choice([8, 16, 32, 64])))
    # width boundaries with saturated columns, in every dtype that can hold the count
    for n in [127, 128, 254, 255, 256, 257, 65534, 65535, 65536, 65537, 2 ** 32 - 1, 2 ** 32, 2 ** 33]:
        for bits in (8, 16, 32, 64):
            if n >= 2 ** bits:
                continue
            for _ in range(3 if tier == "quick" else 12):
                w = rng.randint(1, 6)
                ks = [rng.choice([0, 1, n // 2, (n + 1) // 2, n - 1, n, rng.randint(0, n)]) for _ in range(w)]
                cases.append((ks, n, bits))
    n_rand = 300 if tier == "quick" else 6000
    for _ in range(n_rand):
        r = rng.random()
        if r < 0.5:
            n = rng.randint(2, 300)
            w = rng.randint(1, 40)
        elif r < 0.8:
            n = rng.randint(2, 10 ** 6)
            w = rng.randint(1, 12)
        else:
            # magnitudes around the 2^63 bound of C11 (n * sum k)
            n = rng.choice([2 ** 31, 2 ** 32 - 5, 3 * 10 ** 9, 2 ** 33])
            w = rng.randint(1, 3)
        dens = rng.choice([0.01, 0.3, 0.6, 0.95])
        ks = [min(n, max(0, int(rng.gauss(dens * n, 0.1 * n)))) for _ in range(w)]
        if rng.random() < 0.1:
            ks = [0] * w
        bits = rng.choice([b for b in (8, 16, 32, 64) if n < 2 ** b])
        cases.append((ks, n, bits))
    return cases


def suite_isim(seed, tier):
    r = Result("isim")
    cases = gen_cases(seed, tier)
    terms, obs = [], []
    for ks, n, bits in cases:
        o = impl_obs(ks, n, bits)
        obs.append(o)
        terms.append(f"check_isim {czl(ks)} {cz(n)} {obs_term(o)}")
    out = eval_cases("isim", PRE, terms, shard=400)
    names = ["isim", "radius_compl", "radius", "diameter"]
    r.cases = len(cases)
    seen = set()
    for (ks, n, bits), o, res in zip(cases, obs, out):
        key = (tuple(ks), n)
        if key not in seen and sum(ks) > 0:
            r.nontrivial += 1
        seen.add(key)
        flags = [t.strip() for t in res.strip("[]").split(";")]
        if any(f != "true" for f in flags):
            r.bad.append({"suite": "isim", "ks": ks, "n": n, "dtype_bits": bits,
                          "differs_in": [names[i] for i, f in enumerate(flags) if f != "true"],
                          "impl": o})
    r.stats = {"dtypes": {b: sum(1 for c in cases if c[2] == b) for b in (8, 16, 32, 64)},
               "max_n": max(c[1] for c in cases),
               "beyond_2^53": sum(1 for ks, n, _ in cases if n * sum(ks) >= 2 ** 53),
               "beyond_2^63": sum(1 for ks, n, _ in cases if n * sum(ks) >= 2 ** 63)}
    r.samples = [{"ks": cases[-1][0], "n": cases[-1][1], "dtype_bits": cases[-1][2]}]
    return r


# --------------------------------------------------------------- wrappers (from fingerprints)
def suite_isim_wrappers(seed, tier):
    """jt_isim / jt_isim_diameter / radius / radius_compl / jt_compl_isim on fingerprint
    arrays, packed and unpacked: equal to the from-sum forms on the column sums, which
    the model evaluates."""
    import bblean.similarity as S
    rng = random.Random(seed + 17)
    r = Result("isim-wrappers")
    terms, meta = [], []
    n_cases = 150 if tier == "quick" else 2500
    for _ in range(n_cases):
        nf = rng.choice([1, 3, 7, 8, 9, 16, 30, 64, 100])
        nr = rng.randint(2, 12) if rng.random() < 0.9 else rng.choice([128, 200, 255, 256])
        dens = rng.choice([0.0, 0.1, 0.5, 0.9, 1.0])
        A = np.array([[1 if rng.random() < dens else 0 for _ in range(nf)] for _ in range(nr)],
                     dtype=np.uint8)
        if rng.random() < 0.25:
            # empty rows: all but one, or about half of them
            keep = {rng.randrange(nr)} if rng.random() < 0.5 else {i for i in range(nr) if rng.random() < 0.5}
            for i in range(nr):
                if i not in keep:
                    A[i] = 0
            if not A.any() and rng.random() < 0.7:
                A[rng.randrange(nr), rng.randrange(nf)] = 1
        P = np.packbits(A, axis=1)
        # each complementary similarity equals the iSIM of the set with that row removed (exact
        # rational reference; 1 when the remaining rows are all empty; never NaN for >= 3 rows)
        if nr >= 3:
            from fractions import Fraction
            import oracles
            cu = S.jt_compl_isim(A, input_is_packed=False)
            cp = S.jt_compl_isim(P, input_is_packed=True, n_features=nf)
            ls_all = A.sum(axis=0, dtype=np.int64)
            for k in range(nr):
                rest = [int(v) for v in (ls_all - A[k])]
                ex = Fraction(1) if sum(rest) == 0 else oracles.exact_isim(rest, nr - 1)
                vu, vp = float(cu[k]), float(cp[k])
                if not (vu == vp or (vu != vu and vp != vp)):
                    r.bad.append({"suite": "isim-wrappers", "fn": "compl_isim", "rows": A.tolist(),
                                  "packed": vp, "unpacked": vu})
                    break
                if vu != vu or ((nr - 1) * sum(rest) < 2 ** 52 and Fraction(vu) != Fraction(float(ex))):
                    r.bad.append({"suite": "isim-wrappers", "fn": "compl_isim", "rows": A.tolist(),
                                  "what": f"complementary similarity of row {k} is {vu!r}, the iSIM of the set "
                                          f"without that row is {float(ex)!r}"})
                    break
        vals = {}
        for nm, fn in [("isim", S.jt_isim), ("diam", S.jt_isim_diameter),
                       ("radius", S.jt_isim_radius), ("rcompl", S.jt_isim_radius_compl)]:
            u = float(fn(A, input_is_packed=False))
            p = float(fn(P, input_is_packed=True, n_features=nf))
            if not (u == p or (u != u and p != p)):
                r.bad.append({"suite": "isim-wrappers", "fn": nm, "rows": A.tolist(),
                              "packed": p, "unpacked": u})
            vals[nm] = u
        ks = [int(k) for k in A.sum(axis=0)]
        o = {"isim": vals["isim"], "rcompl": vals["rcompl"], "radius": vals["radius"], "diam": vals["diam"]}
        terms.append(f"check_isim {czl(ks)} {cz(nr)} {obs_term(o)}")
        meta.append((A.tolist(), o))
    out = eval_cases("isimw", PRE, terms, shard=400)
    r.cases = len(terms)
    r.nontrivial = len({str(m[0]) for m in meta})
    for (rows, o), res in zip(meta, out):
        if "false" in res:
            r.bad.append({"suite": "isim-wrappers", "rows": rows, "impl": o, "flags": res})
    r.samples = [{"rows": meta[-1][0][:3]}]
    return r


if __name__ == "__main__":
    import sys
    for s in (suite_isim, suite_isim_wrappers):
        rr = s(int(sys.argv[1]) if len(sys.argv) > 1 else 1, sys.argv[2] if len(sys.argv) > 2 else "quick")
        print(rr.name, rr.cases, rr.nontrivial, len(rr.bad), rr.stats)
        for b in rr.bad[:3]:
            print(b)
