#!/usr/bin/env python3
"""Regenerate /verif/MANIFEST.json from the table below (run by hand after registering a property
in harness/props.py; never run by a check)."""
import json
from pathlib import Path

TIE = (" The theorems quantify over all inputs/histories of the model; the model is tied to /repo on every "
       "run by the translator (coq/Gen/*.v regenerated, Proofs/GenTie*.v re-proved) and/or by differential "
       "execution of the model (vm_compute inside coqc) against the implementation.")
NOTE = ("Trusted: Coq 8.16.1 kernel (+vm_compute for correspondence), stdlib/Flocq axioms listed per theorem in "
        "the evidence (Print Assumptions), translator py2coq + NumpySem.v, correspondence harness; hand-written "
        "parts of the model are tied by correspondence only. See DESIGN.md 'Trusted base'.")
TECH = "machine-checked proof in Coq (induction/invariants/refinement over an executable Gallina model) + translator/correspondence tie"

CLAIMED = {
    "C01": "Coq theorem over all operation histories (induction over fold_left step): every fitted index in exactly one leaf cluster; differential correspondence of the tree model.",
    "C02": "Coq invariant: exact per-bit sums and counts for all cluster sizes (explicit unsigned wrap, minimal width) with a ghost data map; correspondence at the width boundaries 255/256, 65535/65536.",
    "C03": "Coq invariant: every leaf cluster of size >= 2 was accepted under a (criterion, threshold) pair of the history; merge criteria regenerated from source by the translator.",
    "C04": "Coq theorems: chunked fit = one-shot fit; packed/unpacked/memmap input forms produce the same model state; correspondence over the input forms and chunkings.",
    "C05": "Coq theorems on the multi-round model: final clusters partition 0..N-1, centroids aligned and majority-vote exact, buffers paired with their own member lists; whole output directories compared with the model.",
    "C06": "Coq theorems: the multi-round result is a function of the task results only (any permutation/completion order gives the same directory) and task write sets are disjoint; real pools and adversarial in-process schedules compared with the serial run.",
    "C07": "Coq refinement of the tree insertion to an abstract specification (closest-child descent, split by most-dissimilar pair); reference implementation spec_py compared with code and model.",
    "C08": "Coq invariants: node sizes within branching factor, balanced depth, leaf chain = in-order leaves, parents' summaries = sum of children.",
    "C09": "Coq theorems: refine/recluster/reset preserve the partition of fitted indices; co-clustered points stay together where the property says so.",
    "C10": "Coq theorems on the translated merge criteria: accept functions' laws (monotone in threshold, tolerance semantics), regenerated from bblean/_merges.py on every run.",
    "C11": "Coq theorems (Flocq): iSIM/Tanimoto formula exactness below 2^52, range, symmetry; bit-exact PrimFloat model compared with NumPy.",
    "C12": "Coq theorems: pack/unpack round trip, popcount paths agree, packed and unpacked similarity agree for every feature count.",
    "C13": "Coq theorems: loop-level transcription of each C++ kernel equals the Python kernel model on every input where both are defined; the unmodified similarity.cpp is compiled against a pybind11 stand-in and called through ctypes on aligned and misaligned buffers, compared with the C++ model and with the NumPy fallback.",
    "C14": "Coq theorems: a run from ANY leftover directory equals a fresh run plus the untouched foreign files; cleanup leaves no round file; no final file before the last write or after a failing run; fault injection at every file action of the real workflow.",
    "C15": "Coq theorems on the CLI option model (defaults, derived values, validation) + CliRunner vs API correspondence.",
    "C16": "Coq theorems on file-sequence/batching utilities (translated) + correspondence on real files.",
    "C17": "Coq theorems on configuration/memoisation model + correspondence.",
    "C18": "Coq theorems on label/assignment utilities + correspondence.",
    "C19": "Coq theorems on cluster-analysis quantities + correspondence (bit-exact floats).",
    "C20": "Coq theorem over EVERY interleaving of monitor writer and reader file operations; real monitor intercepted at every file operation.",
}
NOT_APPLICABLE = {}


_CORR = "differential correspondence of the hand-written model + direct exact oracles of the statement"
_SKEL = ("tie: translator at skeleton level (the statements of BitBirch.fit / _fit_buffers, of _BFNode.insert_bf_subcluster / "
         "append_subcluster / update_split_subclusters, of _split_node and of the _BFSubcluster buffer arithmetic are "
         "extracted as step lists into Gen/GFit.v and Gen/GTree.v on every run; hand-written interpreters Model/FitPlan.v "
         "and Model/TreePlan.v give the steps their meaning; Proofs/GenTieFit.v, Proofs/GenTieTree.v prove that running "
         "the extracted bodies is the model's fit loop, insert, split_node, upd_sub and merge_sub); ")
TIES = {
    "C01": _SKEL + _CORR + " after every operation",
    "C02": _SKEL + _CORR + " after every operation",
    "C08": _SKEL + _CORR + " with read-only walks of the whole internal tree after every operation",
    "C04": "tie: translator (page-release arithmetic and constructor regenerated from _memory.py: Gen/GMem.v, "
           "Proofs/GenTieMem.v; position and argument of the release check in the fit loops: Gen/GFit.v, "
           "Proofs/GenTieFit.v) for the release clause; " + _CORR + " for the representation clause",
    "C05": "tie: translator (round file names, globs: Gen/GMr.v, Proofs/GenTieMr.v); " + _CORR,
    "C06": "tie: translator (batch plan, task labels, file names: Gen/GMr.v, Proofs/GenTieMr.v); " + _CORR
           + " under controlled task orders, real pools and hash seeds",
    "C09": "tie: translator (round file names and globs: Gen/GMr.v); " + _CORR,
    "C10": "tie: translator (all six criteria and the tolerance constructor regenerated from _merges.py, statistics "
           "from similarity.py: Gen/GMerges.v, Gen/GSim.v, Proofs/GenTieMerges.v); " + _CORR,
    "C11": "tie: translator (iSIM / radius / diameter kernels regenerated: Gen/GSim.v, Proofs/GenTieSim.v); " + _CORR,
    "C12": "tie: translator (centroid kernel: Gen/GSim.v); " + _CORR + ", bit-exact floats",
    "C13": "tie: the C++ source is compiled unmodified on every run and compared with the loop-level model "
           "Model/Cpp.v and with the Python fallback bit for bit",
    "C14": "tie: translator (purge / cleanup / publication plan extracted from run_multiround_bitbirch: Gen/GMrDel.v, "
           "Proofs/GenTieMrDel.v); " + _CORR + " at every crash point and for failures inside workers",
    "C15": "tie: translator (option normalisation translated, plan of estimator calls extracted statement by statement "
           "from cli._run: Gen/GCli.v, Proofs/GenTieCli.v; decision tree of _validate_output_dir: Gen/GCliVd.v, "
           "Proofs/GenTieCliVd.v; the plan is given a denotation on the estimator model in Proofs/CliRun.v); " + _CORR
           + " (CLI vs API)",
    "C16": "tie: translator (parse_num_per_batch, split plan: Gen/GUtil.v, Proofs/GenTieUtil.v); " + _CORR
           + " (real worker calls on shared memory / directories in arbitrary order)",
    "C20": "tie: translator (update condition, file-operation sequence and file names of the monitor, shape of the "
           "reader: Gen/GMon.v, Gen/GMonOps.v, Proofs/GenTieMon.v, Proofs/GenTieMonOps.v); " + _CORR
           + " with the real monitor stopped before every file operation and a process-wide probe of every "
           "file-changing primitive",
    "C17": "tie: translator (BitBirch.__init__, set_merge, tolerance getter and property setters interpreted "
           "symbolically into Gen/GConfig.v; Proofs/GenTieConfig.v); " + _CORR,
}


def main():
    import sys
    sys.path.insert(0, "/verif/harness")
    import props
    claimed = sorted(props.SPECS)
    checks = []
    for p in claimed:
        checks.append({
            "property_id": p,
            "quick_cmd": f"bin/check {p} --tier quick",
            "thorough_cmd": f"bin/check {p} --tier thorough",
            "evidence_file": f"/verif/evidence/{p}.json",
            "replay_cmd_template": f"bin/check {p} --replay {{path}}",
            "engine": "coq-proof+correspondence",
            "level_claimed": {"category": "proof", "text": CLAIMED[p] + TIE, "design_ref": f"DESIGN.md §6 {p}"},
            "level_note": NOTE,
            "technique": TECH + "; " + TIES.get(p, "tie: hand-written model, differential correspondence after every "
                                                "operation + direct exact oracles of the statement"),
        })
    allp = [f"C{i:02d}" for i in range(1, 21)]
    na = [{"property_id": p, "reason": NOT_APPLICABLE.get(p, "not built yet (model/proofs in progress; see DESIGN.md)")}
          for p in allp if p not in claimed]
    m = {
        "version": 1,
        "setup_cmd": "bin/setup",
        "hooks": {
            "guard": "BBLEAN_VERIF",
            "enable": "no source hooks are needed: the harness wraps names in module namespaces from outside; "
                      "bin/check exports BBLEAN_VERIF=1 (unused by /repo)",
            "baseline_off_cmd": "cd /repo && /venv/bin/python -m pytest -ra -q -p no:cacheprovider --timeout=900 "
                                "--continue-on-collection-errors",
            "source_commits": [],
            "add_only": True,
        },
        "engines": [{
            "name": "coq-proof+correspondence",
            "path": "/verif/bin/check",
            "serves_properties": claimed,
            "kind_free_text": "Coq 8.16.1 development under /verif/coq (model, proofs, property statements), Python-AST "
                              "translator /verif/translator/py2coq.py regenerating coq/Gen/*.v from /repo, correspondence "
                              "harness /verif/harness evaluating the model with vm_compute against the implementation",
        }],
        "checks": checks,
        "notes": "Genuine defects repaired by 'fix:' commits in /repo and open findings are listed in "
                 "/verif/KNOWN_FINDINGS.txt; seeded changes and which checks catch them in /verif/seeded and DESIGN.md.",
        "not_applicable": na,
    }
    Path("/verif/MANIFEST.json").write_text(json.dumps(m, indent=1) + "\n")
    print("claimed", claimed, "not claimed", [x["property_id"] for x in na])


if __name__ == "__main__":
    main()
