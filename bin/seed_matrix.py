#!/usr/bin/env python3
"""Apply every seeded change of /verif/seeded to /repo in turn, run the quick check of the property
it targets (plus the extra checks listed), record the outcome in seeded/<id>/meta.json and undo the
change.  Run by hand (never by a registered check); /repo must be clean."""
import json
import re
import subprocess
import sys
from pathlib import Path

SEEDED = Path("/verif/seeded")
NEEDS = {
    "C03-h": "BitBirch now binds the threshold into the accept predicate (functools.partial stored in self._accept) when the merge settings are chosen in __init__/set_merge, and fit/_fit_buffers use that bound predicate instead of reading self.threshold; writers that bypass set_merge leave it stale. It only shows when the threshold is changed without set_merge and RAISED: recluster_inplace(extra_threshold>0) (tree.threshold reports T+d but the re-clustering pass still merges at T), or assigning the public tree.threshold attribute / sklearn set_params(threshold=...) before or between fits; constructor, set_merge(threshold=...), multiround and the CLI (extra_threshold=0) behave exactly as before.",
    "C06-h": "_get_files_range_tuples now labels the round-1 outputs with the shard index parsed from input names that follow the library's '<name>.<idx>.npy' convention (kept only if the labels are in non-decreasing order, falling back to positional labels otherwise), so labels are no longer injective. It needs input files from two different families that share a shard index and are still non-decreasing in input order (e.g. lib_a.0000.npy, lib_b.0000.npy, lib_b.0001.npy): the two round-1 tasks then write the same round-1-bufs/idxs.label-0000-* files, and which one survives (hence the final clusters and centroids) depends on the completion order of the tasks; single-family inputs such as the test suite's fps.0001..0019.npy behave exactly as before.",
    "C05-h": "run_multiround_bitbirch's start-of-run removal of leftover round-* buffer/index files was folded into a shared helper that is now only called when cleanup=True. It needs a second run into an output directory that still holds round-* files of an earlier run (kept with cleanup=False, or left by an interrupted run), with cleanup=False again and a set of round file names that does not cover the old ones (fewer input files, fewer batches, or no uint16 group this time): the stale pairs are globbed into the next round, so the final clusters contain indices of the earlier run (out of range / duplicated) and centroids no longer match their members.",
    "C09-h": "The debug option max_fps was moved into the kwargs common to all multi-round rounds and threaded into BitBirch._fit_buffers (mirroring fit()), so tree-merging and final rounds mmap only the first max_fps rows (= clusters, not fingerprints) of each previous-round buffer file, and the zip with the index lists silently drops the rest. It only shows when run_multiround_bitbirch is called with max_fps set AND a merging round (bin_size >= 2, at least one midsection round) has written a buffer file with more than max_fps clusters: round-1 files never exceed max_fps rows, so the first merging round and all runs without max_fps are unaffected; from the next round on whole clusters (smallest first) fail to re-enter the tree.",
    "C01-h": "_split_node now takes the capacity of the new sibling node from its caller (the parent node's / the tree's current branching factor) instead of from the node being split, so that set_merge(branching_factor=...) 'also applies below the root'. It only shows after fit -> set_merge(branching_factor=<smaller value>) -> fit with enough new clusters that a node built under the old, larger branching factor splits: more entries than the small sibling can hold are moved into it, the split aborts half-way with an IndexError after the node was already emptied, and labels fitted by the earlier successful fit are in no cluster any more (trees whose branching factor never decreases are unaffected).",
    "C08-h": "recluster_inplace(shuffle=True) now re-inserts all leaf clusters as one list in the shuffled order instead of in per-dtype groups, and _fit_buffers casts a whole list to the dtype of its first buffer. It only shows when the tree holds a cluster of >= 256 members (uint16 counters) and the shuffle happens to put such a cluster first: every smaller cluster that is not merged afterwards is then stored with uint16 (or wider) counters, e.g. 1-member entries in uint16 (if a narrower buffer comes first the call raises instead; without shuffle, or with all clusters < 256 members, behaviour is unchanged).",
    "C18-h": "Two sites: BitBirch.get_centroids(sort=True) now orders clusters of equal size by their first molecule index, and the sklearn wrapper's fit builds subcluster_centers_ from get_centroids() instead of _get_leaf_bfs(sort=True); labels_ / get_assignments still rank tied clusters in leaf-traversal order, so transform columns and predict labels point at a different cluster than labels_ does. It only shows when at least two clusters have the same size AND the tree has split at least once (more clusters than branching_factor, default 50), because inside one unsplit leaf traversal order already equals first-molecule order (30 tied clusters: no difference).",
    "C04-h": "_ArrayMemPagesManager.from_bb_input was 'converted to bytes' for files with items wider than one byte (row size and release period now use itemsize), but np.memmap.offset, which is already in bytes, is multiplied by the itemsize too, so the start address of the released blocks lies offset*(itemsize-1) bytes BEFORE the mapped file (and is no longer page aligned). It is only visible when fitting from a .npy PATH holding a multi-byte integer dtype (unpacked int16/uint32/int64 ...) with more than 2 MiB of rows, so that a page release actually happens; uint8 files (all tests, all packed input) behave exactly as before and clusters are unchanged.",
    "C12-h": "_py_similarity: the uint64-word reinterpretation that _popcount used on the (always fresh, contiguous) AND result was factored into _as_words() and is now also applied independently to each operand of the AND in _jt_sim_packed_precalc_cardinalities; when exactly one operand can be viewed as words (packed width a multiple of 8 bytes, and one of the two is not contiguous along its last axis: Fortran-ordered or column-strided row matrix vs. contiguous query, or contiguous matrix vs. strided query vector) the two fall out of step: for 8-byte (64-bit) fingerprints the uint8 and uint64 operands broadcast silently and jt_sim_packed returns wrong similarities (even > 1), for wider multiples of 8 bytes it raises a broadcast ValueError. C-contiguous inputs, widths not a multiple of 8 bytes, and a non-contiguous matrix paired with its own (equally strided) rows, as in jt_sim_matrix_packed, are unaffected.",
    "C07-h": "DiameterMerge no longer computes the iSIM and compares it with the threshold; a new helper _jt_isim_reaches tests numerator >= threshold * denominator to 'skip the division'. The two forms only disagree through floating-point rounding when the would-be cluster's iSIM is exactly equal to a threshold whose double is slightly above the decimal (e.g. threshold=0.55 with numerator/denominator 55/100, 99/180, 110/200: 0.55*100 == 55.00000000000001), so a merge that the reference and the legacy uint8/int64 code accept is refused; no effect for 0.65 and the other common thresholds or for non-boundary iSIM values.",
    "C02-g": "bblean/fingerprints.py:_get_fingerprints_from_file_seq now materialises its `files` argument with `files = sorted(files)` (it is iterated twice, so a list is needed; sorting 'normalises' the order the comment says is assumed), while member labels are still assigned in the order the caller fitted / passed the files. It only shows when the largest cluster is split from a LIST of fingerprint files (BitBirch.refine_inplace([paths]), `bb run` refinement, or multiround with split_largest_after_each_midsection_round / refinement via all_fp_paths) AND the caller's file order is not the lexicographic order of the names (e.g. fps-0.npy..fps-11.npy in numeric order, no zero padding): the split singletons then carry the right labels but rows of other files, so counts stay right (all internal checks pass) while stored sums and centroids no longer match the members.",
    "C20-g": "The monitor's peak-file update was factored into a helper that stages the new value with tempfile.mkstemp in the system temp dir (to keep '*.tmp' files out of the outputs) and publishes it with shutil.move instead of a same-directory os.replace. When the output dir is on the same filesystem as the temp dir this is still an atomic rename, but when it is on a different filesystem (e.g. out dir on /dev/shm, scratch or NFS while /tmp is local) shutil.move silently degrades to copy: max-rss.txt is opened with 'wb' (truncated) and filled afterwards, so a reader that falls between that open and the copy gets ValueError from float('').",
    "C19-g": "The .npy header reader behind _get_fps_file_shape_and_dtype is memoized per path (functools.lru_cache), so _FingerprintFileSequence maps global member indices to files using stale row counts. It only shows when, within one process, a file sequence has been read once (e.g. by an earlier cluster_analysis) and the part files are then rewritten at the same paths with different per-file row counts (re-batched or regenerated fingerprints) and analysed again: the file-sequence provider then fetches the wrong rows (wrong iSIM, silently) or raises IndexError, while the array and single-file providers stay correct.",
    "C17-g": "BitBirch.set_merge was 'simplified' so that the keep-the-previously-chosen-tolerance rule is applied in one place after the criterion has been resolved (build the named criterion with its default tolerance, then write the explicit-or-previous tolerance onto whatever accept function is now installed); this is equivalent for names and for tolerance-only calls, but it also overwrites the tolerance of a merge-function OBJECT passed as the criterion. It only shows when the estimator's CURRENT criterion carries a tolerance (tolerance-diameter / tolerance-radius / tolerance-legacy / never-merge, not the default diameter or radius) and set_merge is then given a tolerance-bearing merge-function object with a different tolerance: the estimator (and the caller's object) silently take the old tolerance, so set_merge(obj) and BitBirch(merge_criterion=obj) disagree in reported tolerance and in clustering.",
    "C15-g": "The duplicated input-collection code of `bb run` and `bb multiround` is factored into a helper `_collect_input_files` in bblean/cli.py that sorts the `*.npy` files by `Path.stem` instead of by path/name, so molecules are no longer numbered in sorted-file order (and clusters.pkl/centroids differ from the API fed with sorted(dir.glob('*.npy')), and from what the plotting commands assume). It only shows on a directory input where one file stem is a proper prefix of another and the next character sorts at or below '.', e.g. lib.npy next to lib-extra.npy or lib.b.npy; zero-padded <name>.<idx>.npy sets, single files and unrelated names are unaffected.",
    "C14-h": "The start-of-run purge of leftovers and the end-of-run cleanup in bblean/multiround.py were folded into a helper that uses glob.iglob(os.path.join(out_dir, pattern)) instead of Path(out_dir).glob(pattern), so glob metacharacters in the output directory's own path are interpreted as a pattern and nothing is matched. It only shows when the output directory path contains '[', ']' (or '*', '?'), e.g. 'results[v2]': then an interrupted run followed by a re-run with fewer files consumes the stale round files (extra molecules in clusters.pkl, or an UnpicklingError on a half-written idxs file), and even a successful run with cleanup leaves all round-* files behind; ordinary directory names behave exactly as before.",
    "C13-g": "The C++ unpack kernels (_nochecks_unpack_fingerprints_1d/_2d in bblean/csrc/similarity.cpp, also used by jt_isim_packed_u8 and jt_most_dissimilar_packed) were refactored onto a shared _unpack_row helper that copies whole bytes first and then handles the remainder once; the truncated tail is read from the row's LAST byte (in[n_bytes-1]) instead of the byte that contains feature n_features (in[n_features/8]). Identical to np.unpackbits(count=n_features) whenever n_features is omitted, a multiple of 8, >= 8*n_bytes, or within the last byte; it differs only when an explicit n_features is not a multiple of 8 AND is more than one byte short of the stored row width (e.g. 167-bit or 881-bit fingerprints kept in rows zero-padded to a multiple of 64 bytes for the aligned fast path), where the trailing n_features%8 bits of every unpacked row, and hence the iSIM of the packed array, differ from the Python fallback. Demonstration: demo.py compiles the real, unmodified bblean/csrc/similarity.cpp out of tree with g++ against a minimal pybind11 stand-in header (seed_out/demo_support/pybind11/*.h) plus a C-ABI harness (seed_out/demo_support/harness.cpp), loads it with ctypes, and compares all six kernels bit-for-bit with bblean._py_similarity / bblean.fingerprints.unpack_fingerprints on a grid of widths, alignments and feature counts (no re-implementation of the loop).",
    "C11-h": "jt_isim_radius_compl_from_sum now accumulates the centroid in place on `ls.astype(np.uint64, copy=False)`, which aliases the caller's array exactly when the count vector is already uint64 (e.g. `fps.sum(0)`); the first call still returns the right value, but the caller's count vector is silently incremented by the centroid. It shows only in a multi-step sequence: call a radius / radius-complement from-sum function on a uint64 count vector and then evaluate jt_isim_from_sum / diameter / radius (or the radius again) on the same array - those no longer equal the exact definition nor the from-fingerprints variants. Narrower dtypes (all BitBirch tree buffers below 2^32 samples) and the from-fingerprints wrappers (temporary sums) are unaffected.",
    "C10-g": "jt_isim_radius_compl_from_sum (bblean/similarity.py) no longer upcasts to uint64 before adding the majority-vote centroid to the column sums ('jt_isim_from_sum casts anyway'), so the addition happens in the dtype of the sums that were passed in and wraps to 0 for any column already at that dtype's maximum. It only shows for the radius-based criteria when the sums arrive in the narrow dtype the tree stores them in (smallest uint holding n) AND the cluster size is exactly the dtype's maximum (255 for uint8, 65535 for uint16) AND some bit is set in every member: e.g. tolerance-radius with an old cluster of exactly 255 members sharing common bits gets a garbage-low old statistic and accepts a merge whose merged statistic is far below old - slack; sizes 254/256 or uint64 sums (what test_merges passes) behave correctly.",
    "C01-a": "num_fitted_fps is advanced by the per-call row index instead of by one per row: needs a second (or later) "
             "fit call, or a fit that fails part-way, after which labels collide / the partition breaks",
    "C02-a": "integer majority threshold (n+1)//2 compared in the native dtype of the linear sum: needs a cluster whose "
             "counters sit at the top of a uint range (255 members as uint8) when a tree is rebuilt from buffers, with a "
             "feature count that is not a multiple of 8",
    "C03-a": "tolerance-radius accepts any merge that does not lower the radius complement before testing the "
             "threshold: needs an old cluster already below the threshold bound (e.g. after set_merge raised it) and a "
             "nominee that tightens it",
    "C04-a": "the page-release row counter is replaced by the estimator's global count of fitted fingerprints: needs "
             "a memory-mapped .npy larger than one release window fitted AFTER an earlier fit (non-zero offset)",
    "C05-a": "refinement from a sequence of FILES re-inserts members through an unsorted permutation: needs Path inputs, "
             "a refinement/split round and a big cluster whose member indices are not already sorted",
    "C06-a": "the midsection threshold change accumulates on the round object: needs a non-zero threshold change and "
             "a worker process that executes more than one task of a round (tasks-per-process differs per schedule)",
    "C07-a": "split seeds use a strict integer majority (ties unset): needs a node split with an even number of "
             "entries and a column set in exactly half of them",
    "C08-a": "widening a counter buffer adds into a narrower intermediate: needs a sub-tree crossing 255 -> 256 members "
             "while some bit is set in more than 255 of them",
    "C09-a": "rest.pop(i) for i in range(n) removes entries 0, 2, 4...: needs refine_inplace with n_largest >= 2 and "
             "at least n_largest + 1 clusters; a non-largest cluster is then split",
    "C10-a": "the old cluster's radius statistic is memoised on (n, sum, sum of squares): needs two different old "
             "clusters with equal moments judged by the same criterion object",
    "C11-a": "ls + centroid is added in the narrow dtype of ls: needs a cluster of exactly 255 members (uint8) with a "
             "column on which all members agree",
    "C12-a": "linear_sum * 2 computed in the narrow dtype: needs a column sum >= 128 in a uint8 sum (128..255 members)",
    "C13-a": "C++ iSIM re-associates the denominator in uint64: needs counts for which n*sum_kq - sum_kqsq computed "
             "in integers differs from the double evaluation (values beyond 2^53 / wrap-around)",
    "C14-b": "the start-of-run purge only removes zip(sorted bufs, sorted idxs) pairs: needs an earlier run interrupted "
             "between the .npy and the .pkl of one task, then a re-run with fewer files such that the zero-padded label "
             "width changes (>= 11 files, then < 10)",
    "C15-a": "bb multiround clamps --bin-size to the number of input files: needs a first round that emits more buffer "
             "files than inputs (a cluster > 255 members -> uint8 and uint16 buffers) and bin size > number of inputs",
    "C16-a": "a contiguous-run shortcut slices first..last: needs an index list with REPEATED global indices inside one "
             "file (last - first + 1 == size by coincidence)",
    "C17-a": "the size-dependent tolerance is memoised per old_n: needs a tolerance criterion used once, then a "
             "tolerance change through the property setter / set_merge(tolerance=...) on the same object",
    "C18-a": "fit_predict tests hasattr(labels_) instead of compute_labels: needs compute_labels=False and a second "
             "fit_predict call (stale labels_ from the first)",
    "C19-a": "Dunn index sums every cluster in min_safe_uint(2 * size of the FIRST cluster): needs a cluster order that "
             "is not largest-first with sizes straddling 127/255",
    "C01-b": "refine_inplace shrinks the list of clusters to split to the multi-member ones but still skips the first "
             "n_largest clusters for re-insertion: needs n_largest >= 2 with a singleton among the n largest clusters; "
             "that singleton's label disappears",
    "C01-c": "a memoised size-sorted leaf list invalidated at the END of fit(): needs a clusters query, then a fit that "
             "fails part-way, then another query (rows inserted before the failure are missing)",
    "C02-c": "merge_subcluster widens the sum dtype only when old_n sits exactly at the dtype maximum: needs a merge of "
             "two multi-member clusters (recluster / refine / rebuild from buffers) whose sizes jump over 255",
    "C03-b": "exact duplicates of a leaf centroid are absorbed without consulting the merge criterion: needs never-merge, "
             "or a raised threshold, and a fingerprint equal to the centroid of a looser cluster",
    "C04-b": "pages are released for row sizes that do not divide the 2 MiB block (rows per block rounded down): needs a "
             ".npy with rows > 128 bytes not dividing 2 MiB and more than one block; releases run ahead of the cursor",
    "C05-b": "the next round globs only uint08/uint16 suffixes: needs a cluster of >= 65536 members at a hand-off (uint32 "
             "buffer file never read; its members vanish)",
    "C05-c": "the merging round sorts the input paths: needs split-after-midsection, >= 1 midsection round and input "
             "files GIVEN in an order that is not their sorted-name order",
    "C06-b": "_InitialRound keeps one tree and restores the criterion with set_merge (which keeps the refinement's "
             "tolerance): needs a tolerance criterion, tolerance != 0.05, full refinement and a worker that handles "
             "more than one file (serial run or n_files > 4 x processes)",
    "C07-b": "a fingerprint equal to the closest leaf centroid is absorbed without the merge criterion: needs a low "
             "threshold and a centroid-equal fingerprint that lowers the iSIM below it, or never-merge",
    "C08-b": "the tracking entry is not updated when the inserted centroid equals it exactly: needs depth >= 2 and an "
             "exact duplicate of a tracked centroid, no split",
    "C08-c": "the centroid cache of a split is filled before the 'seed is closest to itself' correction: needs an "
             "all-zero centroid (or all-identical centroids) in the node that overflows",
    "C09-b": "n_largest=None default resolved with `or 1`: needs an explicit refine_inplace(n_largest=0), which then "
             "breaks the largest cluster",
    "C10-b": "radius criterion accepts as soon as the diameter statistic passes: needs a sparse / incoherent merged "
             "cluster and a threshold between its radius complement and its iSIM",
    "C11-b": "iSIM squares are summed in uint32 for n <= 65535: needs sum of squared column sums >= 2^32 (e.g. 2048 dense "
             "columns with n >= 1500)",
    "C12-b": "complementary similarity vectorised with a single global all-zero guard: needs >= 3 rows of which exactly "
             "one is non-empty (NaN instead of 1; medoid picks it)",
    "C13-b": "C++ centroid threshold computed in float (0.5f): needs n_samples > 2^24 with a column sum within float "
             "rounding of n/2",
    "C13-c": "C++ array-vs-vector Tanimoto returns 1 for two empty fingerprints (fallback returns 0): needs an all-zero "
             "row against an all-zero vector",
    "C14-c": "clusters.pkl is renamed into place before the centroids file is written: needs a failure while writing "
             "the centroids (save_centroids on) in the final round",
    "C15-b": "bb run skips set_merge when refine criterion == initial criterion: needs equal criteria, refine or "
             "recluster rounds > 0 and a non-zero --refine-threshold-change",
    "C16-b": "fps-split --max-fps pads the part index to the width of N//m - 1: needs N % m != 0 and N // m an exact power "
             "of ten (parts then sort out of order)",
    "C16-c": "the per-file output name accumulates on the pool worker object: needs more output files than 4 x processes "
             "in bb fps-from-smiles (a worker then handles several files)",
    "C17-b": "`self.tolerance or 0.05`: needs a previously chosen tolerance of exactly 0.0 and a set_merge / criterion "
             "setter that names only a criterion",
    "C18-b": "subcluster_centers_ recomputed as 2*sums >= n in the narrow dtype of the stacked sums: needs a cluster of "
             "128..255 members (none larger) with a majority bit",
    "C18-c": "predict/transform use a uint8 matmul for the intersections: needs a query sharing >= 256 on-bits with a "
             "centroid (n_features > 255, dense fingerprints)",
    "C19-b": "cluster_analysis slices first..last when last - first == size - 1: needs an in-memory / single-file "
             "provider and a NON-ascending member list satisfying that coincidence",
    "C19-c": "CHI sums every cluster in its own minimal dtype and adds them with Python sum(): needs clusters each below "
             "256 members whose column sums together exceed 255 before a bigger cluster widens the accumulator",
    "C20-b": "the new sample is rounded to 4 decimals before the comparison with the stored peak: needs two samples in the "
             "upper half of one 1e-4 GiB bucket, the later one smaller (the recorded peak decreases)",
    "C03-c": "refine from a single .npy PATH fetches the split members in sorted order but labels them in cluster "
             "order: needs a refinement after member lists stopped being ascending (second refine, or after a "
             "shuffled recluster) with X given as a path",
    "C04-c": "wide integer dtypes are read through a strided uint8 view of the FIRST byte: needs unpacked input as an "
             "ndarray / .npy path with a big-endian multi-byte dtype (every fingerprint reads as zeros)",
    "C06-c": "the midsection batch plan is re-balanced to the number of worker processes: needs more batches than "
             "processes, not a multiple of them, and a bin size that changes (e.g. 12 file pairs, bin 3, 3 processes)",
    "C07-c": "Tanimoto of two empty fingerprints becomes 1: needs an all-zero fingerprint and an all-zero centroid that "
             "is not the first entry on its path (descent / split poles change)",
    "C09-c": "_prepare_bf_to_buffer_dicts groups consecutive same-dtype clusters with groupby and overwrites: needs "
             "recluster_inplace(shuffle=True) with a cluster of >= 256 members among smaller ones (clusters are dropped)",
    "C10-c": "tolerance-diameter rejects when the merged statistic EQUALS the threshold: needs an exact tie (duplicates at "
             "threshold 1.0, Tanimoto exactly 1/2 at threshold 0.5)",
    "C11-c": "complementary similarity vectorised with one global all-zero guard (as C12-b, found independently for "
             "C11): needs >= 3 rows of which exactly one is non-empty",
    "C12-c": "_popcount accumulates in the smallest uint holding 2 x (bytes per row): needs packed widths of 32..127 "
             "bytes and a popcount / intersection / union of >= 256 bits",
    "C14-d": "round files are written as *.tmp and published by a glob-and-rename after each round; the purge does not "
             "know *.npy.tmp: needs a crash after a buffers file was written and a re-run whose (label, dtype) set "
             "differs (fewer files -> other label width)",
    "C15-c": "`if not refine_rounds` treats an explicit --refine-rounds 0 as 'not given': needs --refine-rounds 0 with "
             "--refine-num > 0",
    "C17-c": "the merge_criterion setter returns early when the name is unchanged: needs a merge-function OBJECT that "
             "carries a builtin name with non-builtin hyper-parameters (adaptive=False), then the same name assigned "
             "through the property setter",
    "C20-c": "the launcher publishes a first sample itself while the daemon starts from max = 0: needs the daemon's "
             "first sample to be lower than the launch-time sample (the recorded peak decreases)",
    "C20-a": "the monitor overwrites max-rss.txt in place and truncates afterwards: needs the reader to run between "
             "the write of a shorter value and the truncate (or before the first write)",
    "C01-d": "_split_node builds the second node's mask as the complement of the first BEFORE pole 1 is forced into "
             "node 1: needs a leaf split whose pole 1 is no closer to itself than to pole 2 (an all-zero centroid, or "
             "all centroids identical under never-merge); that cluster is then reported twice",
    "C05-d": "a trailing single-pair batch is folded into the previous one with chunks[-2] += chunks.pop(): needs a "
             "midsection round with bin_size >= 2 and a number of buffer/index pairs > bin_size and = 1 mod bin_size "
             "(three or more batches: one batch lost, one processed twice; two batches: IndexError)",
    "C08-d": "merge_subcluster front-inserts its own labels into the nominee's list when the nominee is longer; the "
             "ancestors then extend with the mutated list: needs a re-inserted cluster with more members than the "
             "leaf entry absorbing it, under a tree of two or more levels (shuffled recluster, merge rounds)",
    "C12-d": "jt_most_dissimilar_packed moves fp_2 to fp_1 + 1 after the similarities to the old fp_2 were computed: "
             "needs argmin(sims to fp_1) == fp_1, visible when row 0 is all-zero and row 1 is not",
    "C16-d": "_FingerprintArrayFiller slices fps to its batch but not the invalid mask: needs --skip-invalid, the "
             "single-file path cut into several batches, and an invalid SMILES in a batch other than the first",
    "C18-d": "get_assignments writes a slice first..last when last - first == n - 1: needs a cluster whose member "
             "list is not increasing (after refine / recluster) and meets that coincidence without being a range",
    "C03-d": "refinement from a SEQUENCE of files reads the split members in sorted index order but no longer "
             "re-orders their labels: needs refine_inplace([paths]) on a largest cluster whose member list is not "
             "increasing (after recluster / an earlier refine) and that does not re-form identically",
    "C04-d": "lru_cache on get_merge_accept_fn: estimators built with the same (criterion, tolerance) share one "
             "merge object, which the tolerance setter mutates in place: needs ANOTHER estimator with the same "
             "tolerance criterion re-tuned in the same process, then a repeated run",
    "C06-d": "_InitialRound reuses one tree per worker (reset + set_merge keeps the tolerance of the 'full' "
             "refinement): needs a tolerance criterion, tolerance != 0.05, refinement_before_midsection='full' and "
             "two files handled by the same callable (serial, or files > 4 x processes)",
    "C09-d": "_get_leaf_bfs sorts on (dtype_name, n_samples): 'uint8' > 'uint16' as strings, so clusters of <= 255 "
             "members sort before those of >= 256: needs a cluster of 256+ members next to a smaller one",
    "C11-d": "jt_isim_packed short-cuts pairs through the Tanimoto kernel, whose 0/0 is 0: needs exactly two packed "
             "uint8 fingerprints, both empty (iSIM must be 1)",
    "C15-d": "`bb run --save-tree` pickles the tree before refinement / re-clustering: needs --save-tree together "
             "with refine or recluster rounds, and the pickle to be compared with the API's tree",
    "C02-d": "refinement from a single .npy path gathers the split members in sorted index order but keeps their "
             "labels in member order: needs refine_inplace(path) on a largest cluster whose member list is not "
             "increasing (after an earlier refine / recluster)",
    "C07-d": "centroid_from_sum compares linear_sum * 2 >= n in the counters' own width: wraps in uint8 for "
             "clusters of 128..255 members (uint16: 32768..65535) whose majority bits are set in >= 128 members",
    "C10-d": "jt_isim_from_sum squares the column counts in uint32 when n < 65536: needs a sum of squared column "
             "counts >= 2^32 (clusters of thousands of members)",
    "C13-d": "C++ most-dissimilar search accumulates column sums in uint16 lanes spilled every 65536 rows: needs "
             ">= 65536 rows with a bit set in every row of an aligned block, and outliers whose order depends on it",
    "C14-e": "pool.map_async(...).wait() never re-raises: needs the parallel path (processes > 1) and a failure "
             "INSIDE a worker (truncated input file, failed write of a round file)",
    "C19-d": "_FingerprintFileSequence sorts the paths: needs a file sequence whose given order is not its "
             "lexicographic order (unpadded part numbers >= 10, descending names, several directories)",
    "C20-d": "the reader falls back to max-rss.txt.tmp when max-rss.txt does not exist yet: needs a read during the "
             "monitor's very first update, between open('w') of the staging file and its flush",
    "C01-e": "_prepare_bf_to_buffer_dicts groups runs of equal dtype with groupby and overwrites (the mechanism of "
             "C09-c, found independently for C01): needs recluster_inplace(shuffle=True) with a cluster of >= 256 "
             "members among smaller ones; labels vanish and num_fitted_fps drops with them",
    "C05-e": "centroid_from_sum compares with (n + 1) // 2, n being a NumPy scalar of the buffer's dtype when a "
             "cluster is rebuilt from a buffer file: needs a cluster of EXACTLY 255 (or 65535) members that reaches "
             "the final round unmerged (its saved centroid is all ones)",
    "C06-e": "lru_cache on get_merge_accept_fn plus set_merge updating the tolerance of the current object in place: "
             "needs initial == midsection criterion of the tolerance family, tolerance != 0.05, 'full' refinement and "
             "two round-1 tasks in one process (serial differs from one task per process)",
    "C08-e": "the singletons refinement breaks off inherit the dtype of the cluster they came from: needs a largest "
             "cluster of >= 256 members, refine_inplace, and a broken-off row that stays alone (a 1-member entry "
             "with uint16 counters)",
    "C11-e": "jt_isim short-cuts two packed uint8 rows through jt_sim_packed, whose 0/0 is 0: needs exactly two "
             "packed rows, both empty, through the public dispatcher",
    "C12-e": "jt_sim_matrix_packed stores intersections in min_safe_uint(width in BYTES): needs rows of < 256 bytes "
             "sharing >= 256 bits",
    "C16-e": "the .npy header reader is memoised per path: needs a path that is indexed / described, rewritten with "
             "another row count in the same process, and indexed again",
    "C18-e": "unpacked_centroid recomputed as 2*sum >= n on the minimal-width buffer: needs a cluster of 128..255 "
             "members with a bit set in >= 128 of them, seen through transform / predict / subcluster_centers_",
    "C03-e": "merge_subcluster accepts a pair of equal singletons without asking the criterion: needs never-merge "
             "and two bit-identical rows (clusters of size 2)",
    "C04-e": "_popcount copies rows whose width is not a multiple of 8 bytes into a module-level scratch buffer "
             "keyed by width in words: needs an earlier clustering in the same process with MORE bytes per row in "
             "the same 8-byte bucket (stale padding inflates the counts of the later run)",
    "C07-e": "RadiusMerge accepts as soon as the diameter statistic passes (the mechanism of C10-b, found "
             "independently for C07): needs the radius criterion, a cluster with several minority bits and a "
             "threshold between its radius complement and its iSIM",
    "C09-e": "midsection batches become ceil(n / bin) slices of n // batches pairs: the last n % batches file "
             "pairs are never read: needs a number of buffer/index pairs that is not a multiple of the number of "
             "batches (whole clusters vanish between rounds)",
    "C10-e": "jt_isim_radius_compl_from_sum skips the centroid when ls.max() <= n // 2: needs an EVEN cluster size "
             "whose most frequent bit is set in exactly half of the members (ties belong to the centroid)",
    "C17-e": "reset() keeps a root that never split and _initialize_tree re-uses it when n_features matches: needs "
             "a small first fit, a change of branching factor, reset, and a second fit that fills the root",
    "C19-e": "jt_isim_unpacked reduces blocks of 256 rows in uint8: needs unpacked uint8 input and a cluster of "
             ">= 256 members with a bit set in all 256 rows of an aligned block",
    "C01-f": "a seeded shuffle of recluster_inplace draws with Random(seed).choices (with replacement): needs "
             "recluster_inplace(shuffle=True, seed=<int>); clusters are re-inserted twice or never",
    "C02-e": "rows of a dense / memory-mapped 2-D input are yielded as views of one re-used scratch block of 256 "
             "rows, and a cluster built from a buffer adopts the view: needs a tree rebuilt from a buffer FILE or "
             "2-D array with more than 256 rows (multi-round merge rounds, _fit_buffers(path))",
    "C05-f": "input_is_packed is no longer forwarded to the midsection rounds: needs unpacked input, "
             "split_largest_after_each_midsection_round and >= 1 midsection round",
    "C11-f": "diameter / radius from packed fingerprints sum bit-planes in reversed order and then cut to "
             "n_features: needs packed input, an explicit n_features that is not a multiple of 8, and populated "
             "trailing features",
    "C13-e": "C++ _popcount_2d takes the 8-byte-word path for every width that is a multiple of 8 and counts "
             "word PAIRS: needs an 8-byte aligned buffer and a row width = 8 mod 16 bytes with a non-zero last word",
    "C14-f": "round buffer files are written through a mkstemp sibling '<name>.npy.<random>.tmp' and the next "
             "round pairs files by a regex that is not anchored at the end: needs a crash inside the write of a "
             "round buffer file, then a re-run in the same directory (the stale temporary is consumed)",
    "C20-e": "the start-of-run purge of run_multiround_bitbirch globs '*.tmp': needs the monitor stopped between "
             "closing max-rss.txt.tmp and renaming it while a run starts in the same directory (the monitor dies)",
    "C03-f": "radius / diameter accept when np.isclose(statistic, threshold): needs a merge whose statistic lies up "
             "to 1e-5 (relative) below the threshold, e.g. a threshold a hair above a small rational",
    "C04-f": "the .npy path is mapped with np.memmap from shape and dtype only, the header's fortran_order flag is "
             "dropped: needs a Fortran-ordered .npy file (np.save of a column-major array)",
    "C06-f": "the midsection threshold shift is applied in place on the round object at every call: needs a non-zero "
             "midsection_threshold_change, >= 2 midsection batches and schedules that put different numbers of "
             "batches on one object (serial vs pool)",
    "C07-f": "`tolerance or 0.05` in the constructor: needs an explicit tolerance of exactly 0.0 with a tolerance "
             "criterion (the clustering is that of tolerance 0.05)",
    "C08-f": "_BFSubcluster gets __eq__ on the per-bit sums and the parent looks its split child up with "
             "list.index: needs an EARLIER sibling entry with equal sums but another count when a child splits "
             "(about one random tiny-width never-merge history in 4000)",
    "C09-f": "_sort_batch keeps only file pairs named uint16 / uint08: needs a cluster of more than 65535 members "
             "(uint32 buffer files) in a midsection round; it never re-enters the next round",
    "C12-f": "jt_sim_packed on two 1-D fingerprints counts bits on an int64 view (bitwise_count of the absolute "
             "value): needs a width that is a multiple of 8 bytes and bit 56 of a 64-bit word set in A&B or A|B",
    "C16-f": "calc_num_smiles counts newlines per 1 MiB block and adds one for every block that does not end in a "
             "newline: needs an input of more than 1 MiB (all-zero rows are appended to the single-file output)",
    "C18-f": "unpack_fingerprints unpacks a 2-D array through the flat buffer: needs packed 2-D queries with an "
             "explicit n_features that is not a multiple of 8 (rows after the first are shifted)",
    "C02-f": "jt_isim_radius_compl_from_sum adds the centroid IN PLACE when the candidate sums are already uint64: "
             "needs a cluster of >= 2^32 members and a radius-type criterion (every accepted merge adds 1 to each "
             "majority bit of the stored sums)",
    "C05-g": "round-1 task labels are taken from the '<name>.<idx>.npy' part of the input file names: needs two "
             "input files with the same <idx> (same file name in two directories): one overwrites the other's "
             "round-1 files and its fingerprints are in no final cluster",
    "C10-f": "majority vote as linear_sum * (1.0 / n) >= 0.5: needs an even cluster size n = 2m with m * (1/m) != 1 "
             "in IEEE double (98, 196, 206, ...) and a column set in exactly half of the members",
    "C11-g": "radius complement returns 0 whenever the iSIM is 0: needs exactly two disjoint, not both empty "
             "fingerprints (ties make the centroid their union; the identity gives 1/2)",
    "C13-f": "C++ argmin with two running minima (even / odd positions) combined without comparing indices: needs "
             "a minimum attained first in an odd row and again in a later even row",
    "C14-g": "the silent console's dummy status returns True from __exit__: needs verbose=False (the default) and "
             "any exception inside a round — it is swallowed, later rounds consume the partial round files",
    "C15-f": "_get_fingerprints_from_file_seq skips leading files that end before the first index but pairs the "
             "per-file indices with the unskipped file list: needs refinement from a directory of >= 2 files whose "
             "largest cluster has no member in the first file",
    "C17-f": "the tolerance getter answers None unless the criterion's NAME starts with 'tolerance': needs the "
             "configuration to pass through never-merge (or a custom-named tolerance object) followed by a "
             "set_merge / setter naming only a criterion (the tolerance reverts to 0.05)",
    "C19-f": "jt_dbi packs the caller's list of unpacked clusters in place: needs unpacked input and another index "
             "(or jt_dbi again) computed afterwards on the same list",
    "C20-f": "the final round of a multi-round run unlinks '*.tmp' before writing its own files: needs the monitor "
             "stopped between opening max-rss.txt.tmp and renaming it while the final round starts",
    "C01-g": "fit() / _fit_buffers() initialise the tree when _root is None BEFORE the 'internal nodes were "
             "released' guard: needs fit, delete_internal_nodes on a tree whose root is not a leaf, then fit "
             "again without reset (the old leaves are unlinked, their labels are in no cluster)",
    "C03-g": "_InitialRound adds the refinement threshold shift into self.threshold: needs the serial multi-round "
             "path, 'full' refinement, several input files and a NEGATIVE midsection_threshold_change (later files "
             "are clustered below every threshold of the run)",
    "C04-g": "unpack_fingerprints cuts the packed rows to n_features // 8 bytes first: needs packed input with "
             "n_features not a multiple of 8 and bits set among the trailing features",
    "C06-g": "the dtype-keyed dicts of _prepare_bf_to_buffer_dicts are pre-created from a SET of dtype names: "
             "needs two dtype groups in one input file (two clusters of 256+ members), 'full' refinement and "
             "worker processes with another hash seed than the parent's",
    "C07-g": "_BFSubcluster.update skips the centroid recomputation when the new fingerprint's bits are already in "
             "the centroid: needs a tracking entry with an even count and a bit set in exactly half of its "
             "members that the new fingerprint lacks (the tie bit must switch off)",
    "C08-g": "_get_leaf_bfs returns the root's own entry list while the root is the only leaf, and sorts it in "
             "place: needs a read (get_cluster_mol_ids ...) on an unsplit tree in which a later cluster outgrew an "
             "earlier one; cache rows no longer belong to their entries",
    "C09-g": "_fit_buffers skips buffers whose per-bit sums are all zero: needs all-zero fingerprints that form a "
             "cluster of their own, then any re-insertion (recluster, refine, a multi-round round)",
    "C12-g": "unpack_fingerprints unpacks a 2-D array as one flat bit stream (the mechanism of C18-f, found "
             "independently for C12): needs >= 2 rows and n_features not a multiple of 8",
    "C16-g": "fps-merge fills a preallocated uint8 array: needs part files of another integer dtype (the merged "
             "file has the wrong dtype, values beyond 255 or negative wrap)",
    "C18-g": "get_assignments checks 'sum of leaf populations == number fitted' instead of scanning for 0: needs "
             "caller-given labels that repeat or leave a gap (a vector with unlabeled entries is returned)",
}
EXTRA = {"C17-a": ["C10"], "C12-a": ["C07"], "C02-a": ["C12"], "C14-b": ["C05"], "C03-b": ["C07"], "C07-b": ["C03"],
         "C05-c": ["C09"], "C02-c": ["C08"], "C09-d": ["C18"], "C03-d": ["C02", "C05"],
         "C04-d": ["C17"], "C11-d": ["C19"], "C07-d": ["C02", "C12", "C08"], "C02-d": ["C03"],
         "C10-d": ["C11"], "C05-e": ["C02"], "C18-e": ["C02"], "C01-e": ["C09"], "C06-e": ["C17", "C04"],
         "C08-e": ["C02"], "C20-e": ["C14"], "C07-e": ["C10"], "C10-e": ["C11"], "C04-e": ["C12", "C07"],
         "C02-e": ["C05"]}


def sh(cmd, **kw):
    return subprocess.run(cmd, shell=True, capture_output=True, text=True, **kw)


def main():
    only = sys.argv[1:]
    if sh("git -C /repo status --porcelain").stdout.strip():
        sys.exit("/repo is not clean")
    for d in sorted(SEEDED.iterdir()):
        if not d.is_dir() or (only and d.name not in only):
            continue
        prop = d.name.split("-")[0]
        ran = []
        ap = sh(f"git -C /repo apply {d}/patch.diff")
        try:
            if ap.returncode != 0:
                ran.append({"cmd": f"git -C /repo apply {d}/patch.diff", "rc": ap.returncode, "out": ap.stderr[-300:]})
            else:
                todo = [(p, "quick") for p in [prop] + EXTRA.get(d.name, [])]
                k = 0
                while k < len(todo):
                    p, tier = todo[k]
                    k += 1
                    r = sh(f"bin/check {p} --tier {tier}", cwd="/verif")
                    lines = [l for l in r.stdout.splitlines() if l.startswith(("VIOLATION", "[" + p, "KNOWN"))]
                    viol = next((l for l in lines if l.startswith("VIOLATION")), None)
                    ran.append({"cmd": f"bin/check {p} --tier {tier}", "rc": r.returncode, "violation_line": viol,
                                "with_failing_input": bool(viol) and "no-failing-input-found" not in viol,
                                "summary": lines[-1] if lines else ""})
                    if p == prop and tier == "quick" and r.returncode == 0:
                        todo.insert(k, (prop, "thorough"))     # missed by the quick tier: the thorough tier decides
        finally:
            sh("git -C /repo checkout -- .")
        vlog = (d / "verify.log").read_text() if (d / "verify.log").exists() else ""
        rcs = dict(re.findall(r"(\w+_rc)=(\d+)", vlog))
        meta = {
            "id": d.name,
            "breaks_property": prop,
            "needs_to_manifest": NEEDS.get(d.name, ""),
            "files": {"patch": "patch.diff", "demonstration": "demo.py", "confirmation_log": "verify.log"},
            "confirmed_in_scratch_worktree": {
                "cmd": f"bin/verify_seeded.sh {d.name}",
                "demo_on_pristine_rc": rcs.get("demo_pristine_rc"), "patch_apply_rc": rcs.get("apply_rc"),
                "demo_with_change_rc": rcs.get("demo_patched_rc"), "test_suite_with_change_rc": rcs.get("tests_rc"),
            },
            "checks_run_against_it": ran,
            "caught": any(x.get("rc") == 1 and x.get("violation_line") for x in ran),
            "origin": "written by a fresh sub-agent given only the property text and a scratch worktree",
        }
        (d / "meta.json").write_text(json.dumps(meta, indent=1) + "\n")
        print(d.name, [(x["cmd"].split()[1], x.get("rc"), x.get("with_failing_input")) for x in ran])


if __name__ == "__main__":
    main()
