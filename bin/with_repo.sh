#!/bin/bash
# run a command that modifies /repo's working tree while background soaks are paused;
# one such command at a time (flock), /repo reverted afterwards
exec 9>/tmp/with_repo.lock
flock 9
touch /tmp/repo_busy
while ls /tmp/soak_running* >/dev/null 2>&1; do sleep 2; done
"$@"; rc=$?
git -C /repo checkout -- . 2>/dev/null
rm -f /tmp/repo_busy
exit $rc
