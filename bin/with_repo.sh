#!/bin/bash
# run a command that modifies /repo's working tree while background soaks are paused
touch /tmp/repo_busy
while ls /tmp/soak_running* >/dev/null 2>&1; do sleep 2; done
"$@"; rc=$?
git -C /repo checkout -- . 2>/dev/null
rm -f /tmp/repo_busy
exit $rc
