#!/bin/bash
# Confirm a seeded change: demo fails with it, passes without it, test suite passes with it.
# usage: verify_seeded.sh <seeded-dir-name>   (writes seeded/<name>/verify.log)
set -u
name=$1
d=/verif/seeded/$name
wt=/tmp/verify_$name
log=$d/verify.log
: > $log
git -C /repo worktree add -q --detach $wt HEAD >>$log 2>&1
cd $wt
cp $d/demo.py $wt/demo_seed.py
[ -d $d/demo_support ] && cp -r $d/demo_support $wt/demo_support
/venv/bin/python demo_seed.py >>$log 2>&1; echo "demo_pristine_rc=$?" >>$log
git apply $d/patch.diff >>$log 2>&1; echo "apply_rc=$?" >>$log
/venv/bin/python demo_seed.py >>$log 2>&1; echo "demo_patched_rc=$?" >>$log
/venv/bin/python -m pytest -q -p no:cacheprovider --timeout=900 -q tests --deselect tests/test_global_clustering.py --deselect tests/test_regression.py 2>&1 | tail -5 >>$log; echo "tests_rc=${PIPESTATUS[0]}" >>$log
cd /
git -C /repo worktree remove --force $wt
grep -E "_rc=" $log | tr '\n' ' '; echo
