#!/usr/bin/env python3
"""Assemble /verif/DESIGN.md from docs/design/{a,props,b}.md and the seed matrix (seeded/*/meta.json)."""
import glob
import json
from pathlib import Path

V = Path("/verif")


def matrix():
    rows = ["| seed | what it needs to manifest | check of its property (quick tier; thorough if missed) | other checks run |",
            "|---|---|---|---|"]
    for f in sorted(glob.glob(str(V / "seeded/*/meta.json"))):
        m = json.load(open(f))
        runs = m["checks_run_against_it"]
        main = runs[0] if runs else {}
        def verdict(x):
            if x.get("with_failing_input"):
                return "VIOLATION with a concrete failing input"
            if x.get("rc") == 1:
                return "VIOLATION, `no-failing-input-found`"
            return "**missed**"
        res = verdict(main)
        rest = runs[1:]
        if rest and rest[0]["cmd"].split()[1] == m["breaks_property"] and "thorough" in rest[0]["cmd"]:
            res = "missed by the quick tier; thorough tier: " + verdict(rest[0])
            rest = rest[1:]
        extra = "; ".join(
            f"{r['cmd'].split()[1]}: " + ("passes" if r.get("rc") == 0 else
                                          "VIOLATION" + ("" if r.get("with_failing_input") else " (tie broken, no input)"))
            for r in rest)
        rows.append(f"| {m['id']} | {m['needs_to_manifest']} | {res} | {extra} |")
    return "\n".join(rows)


def main():
    a = (V / "docs/design/a.md").read_text()
    p = (V / "docs/design/props.md").read_text()
    b = (V / "docs/design/b.md").read_text().replace("<!-- SEED-MATRIX -->", matrix())
    (V / "DESIGN.md").write_text(a.rstrip() + "\n\n" + p.rstrip() + "\n\n" + b)
    print("DESIGN.md:", len((V / "DESIGN.md").read_text().splitlines()), "lines")


if __name__ == "__main__":
    main()
