#!/bin/bash
# run a command that needs /repo pristine: waits while a seeded change is applied (bin/with_repo.sh)
while [ -e /tmp/repo_busy ]; do sleep 3; done
m=/tmp/soak_running_manual_$$
touch $m
while [ -e /tmp/repo_busy ]; do rm -f $m; sleep 3; while [ -e /tmp/repo_busy ]; do sleep 3; done; touch $m; done
"$@"; rc=$?
rm -f $m
exit $rc
