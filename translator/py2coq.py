#!/venv/bin/python
"""py2coq — fail-closed translator from a small typed subset of Python (as used by the
decision logic of bblean) to Gallina.  Regenerates /verif/coq/Gen/*.v from /repo on
every run.  Anything outside the subset aborts the translation (exit 1): the tie is
broken, never guessed.

Types: int (python int -> Z), u64 (numpy uint64 scalar -> Z, explicit wrap), f64 (float),
bool, str (string), arr (integer ndarray -> list Z; values only, the dtype-dependent
operations are explicit in the call table), arr_u64, arr_b (bool array), optint
(int | None -> option Z), optf (float | None -> option float).
NumPy 2 (NEP 50) promotion is made explicit: pyint * u64 -> u64 (wrap), u64 / pyint ->
f64, f64 + u64 -> f64, arr >= pyfloat -> compare in float64.
"""
import ast
import os
import sys
from pathlib import Path

REPO = Path(os.environ.get("BBLEAN_REPO", "/repo"))
OUT = Path(__file__).resolve().parent.parent / "coq" / "Gen"


class Unsupported(Exception):
    pass


def fail(node, msg):
    line = getattr(node, "lineno", "?")
    raise Unsupported(f"line {line}: {msg}: {ast.dump(node)[:200] if isinstance(node, ast.AST) else node}")


def cfloat(x: float) -> str:
    import math
    if math.isnan(x):
        return "nan"
    if x == 0.0:
        return "0%float"
    h = float(x).hex()
    return f"(-{h[1:]})%float" if h.startswith("-") else f"{h}%float"


class Ctx:
    def __init__(self, env, ret, funcs, selfmap=None, raises=False):
        self.env = dict(env)          # python name -> (coq name, type)
        self.ret = ret                # return type
        self.funcs = funcs            # callee table: name -> (coq fn, [arg types], ret type, needs_exp)
        self.selfmap = selfmap or {}  # self.attr -> (coq name, type)
        self.raises = raises          # function may raise: results wrapped in option
        self.fresh = 0


def as_f64(txt, ty, node=None):
    if ty == "f64":
        return txt
    if ty == "int":
        return f"(Zs2f {txt})"
    if ty == "u64":
        return f"(Z2f {txt})"
    fail(node, f"cannot convert {ty} to f64")


class Tr:
    """expression / statement translator for one function"""

    def __init__(self, ctx: Ctx):
        self.c = ctx

    # ---------------------------------------------------------------- expressions
    def expr(self, e):
        m = getattr(self, "e_" + type(e).__name__, None)
        if m is None:
            fail(e, "unsupported expression")
        return m(e)

    def e_Constant(self, e):
        v = e.value
        if isinstance(v, bool):
            return ("true" if v else "false"), "bool"
        if isinstance(v, int):
            return (f"({v})" if v < 0 else str(v)), "int"
        if isinstance(v, float):
            return cfloat(v), "f64"
        if isinstance(v, str):
            return '"' + v.replace('"', '""') + '"%string', "str"
        if v is None:
            return "None", "none"
        fail(e, "constant")

    def e_Name(self, e):
        if e.id in self.c.env:
            return self.c.env[e.id]
        fail(e, f"unbound name {e.id}")

    def e_Attribute(self, e):
        if isinstance(e.value, ast.Name) and e.value.id == "self":
            if e.attr in self.c.selfmap:
                return self.c.selfmap[e.attr]
            fail(e, f"unknown self attribute {e.attr}")
        if isinstance(e.value, ast.Name) and e.value.id == "np" and e.attr == "nan":
            return "nan", "f64"
        fail(e, "attribute")

    def e_UnaryOp(self, e):
        t, ty = self.expr(e.operand)
        if isinstance(e.op, ast.USub):
            if ty == "f64":
                return f"(- {t})%float", "f64"
            if ty == "int":
                return f"(- {t})", "int"
        if isinstance(e.op, ast.Not) and ty == "bool":
            return f"(negb {t})", "bool"
        fail(e, f"unary op on {ty}")

    def e_BinOp(self, e):
        a, ta = self.expr(e.left)
        b, tb = self.expr(e.right)
        op = type(e.op).__name__
        # ---- python ints
        if ta == "int" and tb == "int":
            if op in ("Add", "Sub", "Mult"):
                s = {"Add": "+", "Sub": "-", "Mult": "*"}[op]
                return f"({a} {s} {b})", "int"
            if op == "FloorDiv":
                return f"({a} / {b})", "int"      # Z.div floors like Python for b > 0
            if op == "Mod":
                return f"({a} mod {b})", "int"
            if op == "Div":
                return f"(Zs2f {a} / Zs2f {b})%float", "f64"
        # ---- numpy uint64 scalars (NEP 50: python ints are weak)
        if {ta, tb} <= {"u64", "int"} and "u64" in (ta, tb):
            if op in ("Add", "Sub", "Mult"):
                s = {"Add": "+", "Sub": "-", "Mult": "*"}[op]
                return f"(wrap64 ({a} {s} {b}))", "u64"
            if op == "Div":
                return f"({as_f64(a, ta)} / {as_f64(b, tb)})%float", "f64"
        # ---- floats (either side), ints/u64 converted
        if "f64" in (ta, tb) and ta in ("f64", "int", "u64") and tb in ("f64", "int", "u64"):
            if op in ("Add", "Sub", "Mult", "Div"):
                s = {"Add": "+", "Sub": "-", "Mult": "*", "Div": "/"}[op]
                return f"({as_f64(a, ta, e)} {s} {as_f64(b, tb, e)})%float", "f64"
        if ta == "path" and tb == "str" and op == "Div":
            return b, "str"          # out_dir / name : only the file name matters
        if ta == "str" and tb == "str" and op == "Add":
            return f"({a} ++ {b})%string", "str"
        fail(e, f"binary op {op} on {ta},{tb}")

    def e_Compare(self, e):
        if len(e.ops) != 1:
            fail(e, "chained comparison")
        a, ta = self.expr(e.left)
        b, tb = self.expr(e.comparators[0])
        op = type(e.ops[0]).__name__
        if op in ("Is", "IsNot"):
            if tb != "none" or not ta.startswith("opt"):
                fail(e, f"is/is not on {ta},{tb}")
            t = f"(match {a} with None => true | Some _ => false end)"
            return (t if op == "Is" else f"(negb {t})"), "bool"
        ints = ("int", "u64")
        if ta in ints and tb in ints:
            s = {"Lt": "<?", "LtE": "<=?", "Gt": ">?", "GtE": ">=?", "Eq": "=?", "NotEq": None}[op]
            if op == "NotEq":
                return f"(negb ({a} =? {b}))", "bool"
            return f"({a} {s} {b})", "bool"
        if "f64" in (ta, tb) and ta in ("f64",) + ints and tb in ("f64",) + ints:
            fa, fb = as_f64(a, ta, e), as_f64(b, tb, e)
            f = {"Lt": f"(flt {fa} {fb})", "LtE": f"(fle {fa} {fb})",
                 "Gt": f"(fgt {fa} {fb})", "GtE": f"(fge {fa} {fb})"}.get(op)
            if f:
                return f, "bool"
        if ta == "str" and tb == "str" and op in ("Eq", "NotEq"):
            t = f"(String.eqb {a} {b})"
            return (t if op == "Eq" else f"(negb {t})"), "bool"
        # integer array against a python float: numpy compares in float64
        if ta == "arr" and tb == "f64" and op == "GtE":
            return f"(np_ge_arr_f {a} {b})", "arr_b"
        fail(e, f"comparison {op} on {ta},{tb}")

    def e_BoolOp(self, e):
        if isinstance(e.op, ast.And):
            # Python's `and` short-circuits: a conjunct `x is not None` makes x a plain value in
            # the conjuncts after it (the unwrapped default is never observed: && is lazy in value)
            saved_env = dict(self.c.env)
            parts = []
            for v in e.values:
                parts.append(self.expr(v))
                for nm in self.notnone_names(v):
                    cn, ty = self.c.env[nm]
                    if ty == "optint":
                        self.c.env[nm] = (f"(unwrapZ {cn})", "int")
                    if ty == "optbool":
                        self.c.env[nm] = (f"(match {cn} with Some b => b | None => false end)", "bool")
            self.c.env = saved_env
        else:
            parts = [self.expr(v) for v in e.values]
        if any(t != "bool" for _, t in parts):
            fail(e, "boolop on non-bool")
        s = " && " if isinstance(e.op, ast.And) else " || "
        return "(" + s.join(p for p, _ in parts) + ")", "bool"

    def e_IfExp(self, e):
        t, tt = self.expr(e.test)
        a, ta = self.expr(e.body)
        b, tb = self.expr(e.orelse)
        if tt != "bool":
            fail(e, "ifexp test")
        # `d if x is None else x` : unwrapping an option
        if ta != tb:
            fail(e, f"ifexp branches {ta},{tb}")
        return f"(if {t} then {a} else {b})", ta

    def e_JoinedStr(self, e):
        parts = []
        for v in e.values:
            if isinstance(v, ast.Constant) and isinstance(v.value, str):
                parts.append('"' + v.value.replace('"', '""') + '"%string')
            elif isinstance(v, ast.FormattedValue) and v.format_spec is None and v.conversion == -1:
                t, ty = self.expr(v.value)
                if ty == "str":
                    parts.append(t)
                elif ty == "int":
                    parts.append(f"(str_of_Z {t})")
                else:
                    fail(e, f"f-string component of type {ty}")
            else:
                fail(e, "f-string format spec / conversion")
        if not parts:
            return '""%string', "str"
        out = parts[0]
        for q in parts[1:]:
            out = f"({out} ++ {q})%string"
        return out, "str"

    def e_Tuple(self, e):
        parts = [self.expr(v) for v in e.elts]
        return "(" + ", ".join(p for p, _ in parts) + ")", "tuple:" + ",".join(t for _, t in parts)

    def e_Call(self, e):
        f = e.func
        # ---- method calls
        if isinstance(f, ast.Attribute):
            # np.xxx(...)
            if isinstance(f.value, ast.Name) and f.value.id == "np":
                return self.np_call(e, f.attr)
            if isinstance(f.value, ast.Name) and f.value.id == "math" and f.attr == "ceil":
                # math.ceil(a / b) on python ints
                arg = e.args[0]
                if isinstance(arg, ast.BinOp) and isinstance(arg.op, ast.Div):
                    a, ta = self.expr(arg.left)
                    b, tb = self.expr(arg.right)
                    if ta == "int" and tb == "int":
                        return f"(ceil_div {a} {b})", "int"
                fail(e, "math.ceil of a non int/int quotient")
            if isinstance(f.value, ast.Name) and f.value.id == "warnings":
                fail(e, "warnings call in expression position")
            obj, to = self.expr(f.value)
            if f.attr == "astype" and to == "arr":
                dt = self.dtype(e.args[0])
                return f"(np_astype {dt} {obj})", ("arr_u64" if dt == "W64" else "arr")
            if f.attr == "view" and to == "arr_b" and self.dtype(e.args[0]) == "W8":
                return f"(np_view_u8 {obj})", "arr"
            if f.attr == "zfill" and to == "str":
                a, ta = self.expr(e.args[0])
                return f"(zfill {obj} {a})", "str"
            if f.attr == "replace" and to == "str":
                a, _ = self.expr(e.args[0])
                b, _ = self.expr(e.args[1])
                return f"(str_replace {obj} {a} {b})", "str"
            fail(e, f"method {f.attr} on {to}")
        if not isinstance(f, ast.Name):
            fail(e, "call target")
        name = f.id
        if name == "max" and len(e.args) == 2:
            a, ta = self.expr(e.args[0])
            b, tb = self.expr(e.args[1])
            if ta == "f64" and tb == "f64":
                return f"(py_max_f {a} {b})", "f64"
            if ta == "int" and tb == "int":
                return f"(Z.max {a} {b})", "int"
        if name == "min" and len(e.args) == 2:
            a, ta = self.expr(e.args[0])
            b, tb = self.expr(e.args[1])
            if ta == "int" and tb == "int":
                return f"(Z.min {a} {b})", "int"
        if name == "len":
            a, ta = self.expr(e.args[0])
            if ta == "str":
                return f"(Z.of_nat (String.length {a}))", "int"
            if ta.startswith("list") or ta.startswith("arr"):
                return f"(zlen {a})", "int"
        if name == "str":
            a, ta = self.expr(e.args[0])
            if ta == "int":
                return f"(str_of_Z {a})", "str"
        if name == "int" and len(e.args) == 1:
            a, ta = self.expr(e.args[0])
            if ta == "f64":
                return f"(f2Z_trunc {a})", "int"
            if ta == "int":
                return a, "int"
        if name in self.c.funcs:
            cf, argtys, rty, _ = self.c.funcs[name]
            args = [self.expr(a) for a in e.args]
            for kw in e.keywords:
                args.append(self.expr(kw.value))
            if len(args) != len(argtys):
                fail(e, f"arity of {name}")
            outs = []
            for (t, ty), want in zip(args, argtys):
                if ty != want:
                    if want == "arr" and ty == "arr_u64":
                        pass
                    elif want == "f64" and ty in ("int", "u64"):
                        t = as_f64(t, ty)
                    else:
                        fail(e, f"argument type {ty} for {want} in call of {name}")
                outs.append(t)
            return f"({cf} {' '.join(outs)})", rty
        fail(e, f"unknown callee {name}")

    def dtype(self, node):
        if isinstance(node, ast.Attribute) and isinstance(node.value, ast.Name) and node.value.id == "np":
            return {"uint8": "W8", "uint16": "W16", "uint32": "W32", "uint64": "W64"}.get(node.attr) or fail(node, "dtype")
        fail(node, "dtype expression")

    def np_call(self, e, fn):
        args = [self.expr(a) for a in e.args]
        kws = {k.arg: k.value for k in e.keywords}
        if fn == "sum" and len(args) == 1 and not kws:
            a, ta = args[0]
            if ta == "arr_u64":
                return f"(np_sum_u64 {a})", "u64"
        if fn == "dot" and len(args) == 2:
            (a, ta), (b, tb) = args
            if ta == tb == "arr_u64":
                return f"(np_dot_u64 {a} {b})", "u64"
        if fn == "exp" and len(args) == 1:
            a, ta = args[0]
            return f"(fexp {as_f64(a, ta, e)})", "f64"
        if fn == "add" and len(args) == 2 and set(kws) == {"dtype"}:
            (a, ta), (b, tb) = args
            dt = self.dtype(kws["dtype"])
            return f"(np_add_dtype {dt} {a} {b})", ("arr_u64" if dt == "W64" else "arr")
        if fn == "packbits" and len(args) == 1:
            a, ta = args[0]
            return f"(np_packbits {a})", "arr"
        if fn == "min_scalar_type" and len(args) == 1:
            a, ta = args[0]
            if ta == "int":
                return f"(np_min_scalar_type {a})", "optdtype"
        fail(e, f"np.{fn}")

    # ---------------------------------------------------------------- statements
    def wrap_ret(self, t):
        return f"(Some {t})" if self.c.raises else t

    def block(self, stmts):
        """statement list -> Gallina expression (continuation style)"""
        if not stmts:
            fail(ast.Pass(), "function falls off its end without return")
        s, rest = stmts[0], stmts[1:]
        if isinstance(s, ast.Expr):
            if isinstance(s.value, ast.Constant) and isinstance(s.value.value, str):
                return self.block(rest)                       # docstring
            if (isinstance(s.value, ast.Call) and isinstance(s.value.func, ast.Attribute)
                    and isinstance(s.value.func.value, ast.Name)
                    and s.value.func.value.id == "warnings"):
                return self.block(rest)                       # warnings.warn(...): no effect on the value
            if not (isinstance(s.value, ast.Call) and isinstance(s.value.func, ast.Name)
                    and s.value.func.id in getattr(self.c, "effects", ())):
                fail(s, "expression statement")
        if isinstance(s, ast.AnnAssign) and s.value is None:
            return self.block(rest)                           # bare annotation
        if isinstance(s, (ast.Assign, ast.AnnAssign)):
            tgt = s.targets[0] if isinstance(s, ast.Assign) else s.target
            if isinstance(s, ast.Assign) and len(s.targets) != 1:
                fail(s, "multiple targets")
            t, ty = self.expr(s.value)
            if ty == "none":
                t = "(@None Z)"        # the only optional type of the subset is int | None
            if isinstance(tgt, ast.Name):
                nm = tgt.id
                self.c.fresh += 1
                cn = f"{nm}_{self.c.fresh}" if nm in self.c.env else nm
                saved = dict(self.c.env)
                self.c.env[nm] = (cn, ty)
                body = self.block(rest)
                self.c.env = saved
                return f"let {cn} := {t} in\n  {body}"
            if (isinstance(tgt, ast.Attribute) and isinstance(tgt.value, ast.Name)
                    and tgt.value.id == "self"):
                saved = dict(self.c.selfmap)
                self.c.fresh += 1
                cn = f"self_{tgt.attr}_{self.c.fresh}"
                self.c.selfmap[tgt.attr] = (cn, ty)
                body = self.block(rest)
                self.c.selfmap = saved
                return f"let {cn} := {t} in\n  {body}"
            fail(s, "assignment target")
        if isinstance(s, ast.AugAssign):
            # x op= e  ==>  x = x op e
            binop = ast.BinOp(left=ast.copy_location(
                ast.Attribute(value=s.target.value, attr=s.target.attr, ctx=ast.Load())
                if isinstance(s.target, ast.Attribute) else ast.Name(id=s.target.id, ctx=ast.Load()),
                s.target), op=s.op, right=s.value)
            return self.block([ast.copy_location(ast.Assign(targets=[s.target], value=binop), s)] + rest)
        if (isinstance(s, ast.Expr) and isinstance(s.value, ast.Call)
                and isinstance(s.value.func, ast.Name) and s.value.func.id in getattr(self.c, "effects", ())):
            # an observable effect (e.g. madvise): recorded, in order, in the result
            args = [t for t, ty in (self.expr(a) for a in s.value.args
                                     if not (isinstance(a, ast.Name) and a.id not in self.c.env)) ]
            self.c.fresh += 1
            cn = f"effect_{self.c.fresh}"
            self.c.effect_vars = getattr(self.c, "effect_vars", []) + [cn]
            body = self.block(rest)
            self.c.effect_vars = self.c.effect_vars[:-1]
            return f"let {cn} := ({', '.join(args)}) in\n  {body}"
        if (isinstance(s, ast.With) and len(s.items) == 1 and isinstance(s.items[0].context_expr, ast.Call)
                and isinstance(s.items[0].context_expr.func, ast.Name)
                and s.items[0].context_expr.func.id == "open" and "open" in getattr(self.c, "effects", ())):
            # a file written by this statement: recorded as an effect (its name)
            t, ty = self.expr(s.items[0].context_expr.args[0])
            if ty != "str":
                fail(s, "open() of a non-name")
            self.c.fresh += 1
            cn = f"effect_{self.c.fresh}"
            self.c.effect_vars = getattr(self.c, "effect_vars", []) + [cn]
            body = self.block(rest)
            self.c.effect_vars = self.c.effect_vars[:-1]
            return f"let {cn} := {t} in\n  {body}"
        if (isinstance(s, ast.If) and not s.orelse and len(s.body) == 1 and isinstance(s.body[0], ast.Assign)
                and isinstance(s.test, ast.Compare) and len(s.test.ops) == 1 and isinstance(s.test.ops[0], ast.Is)
                and isinstance(s.test.left, ast.Name) and isinstance(s.test.comparators[0], ast.Constant)
                and s.test.comparators[0].value is None and len(s.body[0].targets) == 1
                and isinstance(s.body[0].targets[0], ast.Name) and s.body[0].targets[0].id == s.test.left.id
                and self.c.env.get(s.test.left.id, (None, None))[1] == "optint"):
            # `if x is None: x = e` — the default of an optional integer: x is a plain int afterwards
            nm = s.test.left.id
            cn, _ = self.c.env[nm]
            t, ty = self.expr(s.body[0].value)
            if ty != "int":
                fail(s, f"default of an optional int has type {ty}")
            self.c.fresh += 1
            nn = f"{nm}_{self.c.fresh}"
            saved_env = dict(self.c.env)
            self.c.env[nm] = (nn, "int")
            body = self.block(rest)
            self.c.env = saved_env
            return f"let {nn} := match {cn} with Some v => v | None => {t} end in\n  {body}"
        if isinstance(s, ast.If):
            t, tt = self.expr(s.test)
            if tt != "bool":
                fail(s, "if test not bool")
            # flow-sensitive: `x is not None` conjuncts make x a plain int in the true branch
            saved_env = dict(self.c.env)
            for nm in self.notnone_names(s.test):
                cn, ty = self.c.env[nm]
                if ty == "optint":
                    self.c.env[nm] = (f"(unwrapZ {cn})", "int")
                if ty == "optbool":
                    self.c.env[nm] = (f"(match {cn} with Some b => b | None => false end)", "bool")
            a = self.block(s.body + rest) if not self.returns(s.body) else self.block(s.body)
            self.c.env = saved_env
            if s.orelse:
                b = self.block(s.orelse + rest) if not self.returns(s.orelse) else self.block(s.orelse)
            else:
                b = self.block(rest)
            return f"if {t} then\n  {a}\n  else\n  {b}"
        if isinstance(s, ast.Return):
            if s.value is None:
                fail(s, "bare return")
            t, ty = self.expr(s.value)
            want = self.c.ret
            if want.startswith("tuple:") and ty.startswith("tuple:") and isinstance(s.value, ast.Tuple):
                wants = want[6:].split(",")
                parts = [self.expr(e) for e in s.value.elts]
                if len(parts) != len(wants):
                    fail(s, "tuple arity")
                outs = []
                for (pt, pty), w in zip(parts, wants):
                    if pty == w:
                        outs.append(pt)
                    elif w == "optint" and pty == "int":
                        outs.append(f"(Some {pt})")
                    elif w == "optint" and pty == "none":
                        outs.append("None")
                    else:
                        fail(s, f"tuple component {pty} for {w}")
                return self.wrap_ret("(" + ", ".join(outs) + ")")
            if ty != want:
                if want == "f64" and ty in ("int", "u64"):
                    t = as_f64(t, ty)
                elif want == "arr" and ty == "arr_u64":
                    pass
                elif want == "selfstate":
                    pass
                else:
                    fail(s, f"return type {ty}, expected {want}")
            return self.wrap_ret(t)
        if isinstance(s, ast.Raise):
            if not self.c.raises:
                fail(s, "raise in a function declared total")
            return "None"
        fail(s, "unsupported statement")

    def notnone_names(self, test):
        out = []
        conj = test.values if isinstance(test, ast.BoolOp) and isinstance(test.op, ast.And) else [test]
        for c in conj:
            if (isinstance(c, ast.Compare) and len(c.ops) == 1 and isinstance(c.ops[0], ast.IsNot)
                    and isinstance(c.left, ast.Name) and isinstance(c.comparators[0], ast.Constant)
                    and c.comparators[0].value is None and c.left.id in self.c.env):
                out.append(c.left.id)
        return out

    def returns(self, stmts):
        if not stmts:
            return False
        last = stmts[-1]
        if isinstance(last, (ast.Return, ast.Raise)):
            return True
        if isinstance(last, ast.If) and last.orelse:
            return self.returns(last.body) and self.returns(last.orelse)
        return False


# ==================================================================== targets
COQTY = {"int": "Z", "u64": "Z", "f64": "float", "bool": "bool", "str": "string",
         "arr": "list Z", "arr_u64": "list Z", "optint": "option Z", "optf": "option float", "path": "string",
         "optbool": "option bool"}


def find_func(tree, qual):
    parts = qual.split(".")
    body = tree.body
    node = None
    for p in parts:
        node = next((n for n in body if isinstance(n, (ast.FunctionDef, ast.ClassDef)) and n.name == p), None)
        if node is None:
            raise Unsupported(f"target {qual} not found")
        body = node.body
    return node


def translate_function(src_file, qual, coq_name, params, ret, funcs, selfmap=None,
                       raises=False, needs_exp=False, end_expr=None, drop_self_attrs=False,
                       effects=(), rewrite=None, pyparams_expected=None):
    """params: list of (python name, type) in Coq parameter order.
    end_expr: for __init__-style functions, python attrs to return as a tuple.
    rewrite: optional ast.NodeTransformer applied to the function first (attribute accesses on
    an object parameter become plain names); then pyparams_expected lists the python parameters."""
    tree = ast.parse((REPO / src_file).read_text())
    fn = find_func(tree, qual)
    pyparams = [a.arg for a in fn.args.args + fn.args.kwonlyargs if a.arg not in ("self", "cls")]
    if rewrite is not None:
        if sorted(pyparams) != sorted(pyparams_expected):
            raise Unsupported(f"{qual}: parameter list changed: {pyparams}")
        fn = rewrite.visit(fn)
        ast.fix_missing_locations(fn)
    elif sorted(pyparams) != sorted(p for p, _ in params):
        raise Unsupported(f"{qual}: parameter list changed: {pyparams}")
    env = {p: (p, t) for p, t in params}
    ctx = Ctx(env, ret, funcs, dict(selfmap or {}), raises)
    ctx.effects = tuple(effects)
    tr = Tr(ctx)
    stmts = list(fn.body)
    if end_expr is not None:
        # __init__: no return; the value is the tuple of final self attributes
        class Fin(Tr):
            pass
        orig_block = tr.block

        def block(sts):
            if not sts:
                outs = ["[" + "; ".join(getattr(ctx, "effect_vars", [])) + "]"] if effects else []
                for a in end_expr:
                    if a not in ctx.selfmap:
                        raise Unsupported(f"{qual}: attribute {a} not assigned")
                    outs.append(ctx.selfmap[a][0])
                return "(" + ", ".join(outs) + ")"
            return orig_block(sts)
        tr.block = block
    body = tr.block(stmts)
    ps = " ".join(f"({p} : {COQTY[t]})" for p, t in params)
    sm = " ".join(f"({v[0]} : {COQTY[v[1]]})" for v in (selfmap or {}).values()) if not drop_self_attrs else ""
    hdr = f"Definition {coq_name} {sm} {ps} :=\n  {body}."
    return hdr


HEADER = """(* GENERATED by /verif/translator/py2coq.py from {src} — do not edit. *)
From BB Require Import Model.Base Gen.NumpySem.
From Coq Require Import String.
Open Scope Z_scope.
"""


def gen_sim():
    """bblean/_py_similarity.py + bblean/similarity.py: scalar decision logic of the
    iSIM / centroid / radius functions."""
    out = [HEADER.format(src="bblean/_py_similarity.py, bblean/similarity.py")]
    funcs = {}
    out.append(translate_function(
        "bblean/_py_similarity.py", "centroid_from_sum", "centroid_from_sum",
        [("linear_sum", "arr"), ("n_samples", "int"), ("pack", "bool")], "arr", funcs))
    funcs["centroid_from_sum"] = ("centroid_from_sum", ["arr", "int", "bool"], "arr", False)
    out.append(translate_function(
        "bblean/_py_similarity.py", "jt_isim_from_sum", "jt_isim_from_sum",
        [("linear_sum", "arr"), ("n_objects", "int")], "f64", funcs))
    funcs["jt_isim_from_sum"] = ("jt_isim_from_sum", ["arr", "int"], "f64", False)
    out.append(translate_function(
        "bblean/similarity.py", "jt_isim_radius_compl_from_sum", "jt_isim_radius_compl_from_sum",
        [("ls", "arr"), ("n", "int")], "f64", funcs))
    funcs["jt_isim_radius_compl_from_sum"] = ("jt_isim_radius_compl_from_sum", ["arr", "int"], "f64", False)
    out.append(translate_function(
        "bblean/similarity.py", "jt_isim_radius_from_sum", "jt_isim_radius_from_sum",
        [("ls", "arr"), ("n", "int")], "f64", funcs))
    out.append(translate_function(
        "bblean/similarity.py", "jt_isim_diameter_from_sum", "jt_isim_diameter_from_sum",
        [("ls", "arr"), ("n", "int")], "f64", funcs))
    return "\n\n".join(out) + "\n", funcs


def gen_merges(simfuncs):
    out = [HEADER.format(src="bblean/_merges.py") +
           "From BB Require Import Gen.GSim.\n\nSection WithExp.\nVariable fexp : float -> float.\n"]
    funcs = dict(simfuncs)
    call_params = [("threshold", "f64"), ("new_ls", "arr"), ("new_n", "int"), ("old_ls", "arr"),
                   ("nom_ls", "arr"), ("old_n", "int"), ("nom_n", "int")]
    tolself = {"tolerance": ("self_tolerance", "f64"), "decay": ("self_decay", "f64"),
               "offset": ("self_offset", "f64")}
    for cls, nm, sm in [("RadiusMerge", "radius_call", None), ("DiameterMerge", "diameter_call", None),
                        ("ToleranceDiameterMerge", "tol_diameter_call", tolself),
                        ("ToleranceRadiusMerge", "tol_radius_call", tolself),
                        ("NeverMerge", "never_call", None),
                        ("ToleranceMerge", "tol_legacy_call", {"tolerance": ("self_tolerance", "f64")})]:
        out.append(translate_function("bblean/_merges.py", f"{cls}.__call__", nm, call_params,
                                      "bool", funcs, sm))
    # ToleranceDiameterMerge.__init__ -> (tolerance, decay, offset)
    out.append(translate_function(
        "bblean/_merges.py", "ToleranceDiameterMerge.__init__", "tol_init",
        [("tolerance", "f64"), ("n_max", "int"), ("decay", "f64"), ("adaptive", "bool")],
        "selfstate", funcs, {}, end_expr=["tolerance", "decay", "offset"], drop_self_attrs=True))
    out.append("End WithExp.")
    return "\n\n".join(out) + "\n"


def gen_monitor_cond():
    """monitor_rss_process: the decision to rewrite the peak file.  Inside the polling loop exactly
    one `if` guards the writes to max-rss.txt; its test is translated as a function of the new
    sample and the stored maximum, and its first statement must store the sample as the new
    maximum (`max_rss_gib = total_rss_gib`)."""
    tree = ast.parse((REPO / "bblean/_memory.py").read_text())
    fn = find_func(tree, "monitor_rss_process")
    loop = next((n for n in fn.body if isinstance(n, ast.While)), None)
    if loop is None:
        raise Unsupported("monitor_rss_process: no polling loop")
    guards = [st for st in loop.body if isinstance(st, ast.If)
              and any(isinstance(c, ast.Constant) and isinstance(c.value, str) and "max-rss" in c.value
                      for c in ast.walk(st))]
    others = [st for st in loop.body if not isinstance(st, ast.If)
              and any(isinstance(c, ast.Constant) and isinstance(c.value, str) and "max-rss" in c.value
                      for c in ast.walk(st))]
    if len(guards) != 1 or others:
        raise Unsupported("monitor_rss_process: the peak file is not written under exactly one guard")
    g = guards[0]
    if g.orelse:
        raise Unsupported(f"line {g.lineno}: the guard of the peak file has an else branch")
    first = g.body[0]
    if not (isinstance(first, ast.Assign) and len(first.targets) == 1 and isinstance(first.targets[0], ast.Name)
            and first.targets[0].id == "max_rss_gib" and isinstance(first.value, ast.Name)
            and first.value.id == "total_rss_gib"):
        raise Unsupported(f"line {first.lineno}: the stored maximum is not set to the new sample")
    for st in loop.body:
        for n in ast.walk(st):
            if isinstance(n, (ast.Assign, ast.AugAssign)) and n is not first:
                tg = n.targets if isinstance(n, ast.Assign) else [n.target]
                if any(isinstance(t, ast.Name) and t.id == "max_rss_gib" for t in tg):
                    raise Unsupported(f"line {n.lineno}: max_rss_gib is assigned elsewhere in the loop")
    ctx = Ctx({"total_rss_gib": ("total_rss_gib", "f64"), "max_rss_gib": ("max_rss_gib", "f64")}, "bool", {}, {}, False)
    t, ty = Tr(ctx).expr(g.test)
    if ty != "bool":
        raise Unsupported("monitor guard is not a boolean")
    return f"Definition monitor_update_cond (total_rss_gib max_rss_gib : float) : bool :=\n  {t}."


def gen_monitor_ops():
    """monitor_rss_process / get_peak_memory_gib: the file operations of one update of the peak file, in
    program order, as a list of the model's writer operations (Model/Monitor.wop), and the names of the
    files involved.  The guarded block must be: store the new maximum; bind the temporary path (a sibling
    of the peak file); `with open(tmp, mode="w", ...) as f:` containing exactly f.write(f"{max}\\n"),
    f.flush(), os.fsync(f.fileno()); then os.replace(tmp, <peak>).  The reader must test and open
    out_dir / <peak>.  Anything else is a failed translation."""
    tree = ast.parse((REPO / "bblean/_memory.py").read_text())
    fn = find_func(tree, "monitor_rss_process")
    loop = next((n for n in fn.body if isinstance(n, ast.While)), None)
    if loop is None:
        raise Unsupported("monitor_rss_process: no polling loop")
    guards = [st for st in loop.body if isinstance(st, ast.If)
              and any(isinstance(c, ast.Constant) and isinstance(c.value, str) and "max-rss" in c.value
                      for c in ast.walk(st))]
    if len(guards) != 1:
        raise Unsupported("monitor_rss_process: the peak file is not written under exactly one guard")
    body = list(guards[0].body)[1:]        # [0] is `max_rss_gib = total_rss_gib` (checked by gen_monitor_cond)

    def sibling(e):
        """file.parent / "<name>"  ->  name"""
        if (isinstance(e, ast.BinOp) and isinstance(e.op, ast.Div) and ast.unparse(e.left) == "file.parent"
                and isinstance(e.right, ast.Constant) and isinstance(e.right.value, str)):
            return e.right.value
        fail(e, "monitor: path is not file.parent / <constant name>")
    env = {}

    def path(e):
        if isinstance(e, ast.Name) and e.id in env:
            return env[e.id]
        return sibling(e)
    ops, tmp_name, peak_name = [], None, None
    for st in body:
        if isinstance(st, ast.Assign) and len(st.targets) == 1 and isinstance(st.targets[0], ast.Name):
            env[st.targets[0].id] = sibling(st.value)
        elif isinstance(st, ast.With):
            if len(st.items) != 1:
                fail(st, "monitor: with-statement with several items")
            call, var = st.items[0].context_expr, st.items[0].optional_vars
            if not (isinstance(call, ast.Call) and ast.unparse(call.func) == "open" and len(call.args) == 1
                    and isinstance(var, ast.Name)):
                fail(st, "monitor: with-statement is not `with open(path, ...) as f`")
            kw = {k.arg: ast.unparse(k.value) for k in call.keywords}
            if kw.get("mode") != "'w'" or set(kw) - {"mode", "encoding"}:
                fail(st, "monitor: the temporary file is not opened with mode='w'")
            if tmp_name is not None:
                fail(st, "monitor: more than one file is opened in the update")
            tmp_name = path(call.args[0])
            ops.append("WOpen")
            f = var.id
            for inner in st.body:
                s = ast.unparse(inner)
                if s == f"{f}.write(f'{{max_rss_gib}}\\n')":
                    ops.append("WWrite v")
                elif s == f"{f}.flush()":
                    ops.append("WFlush")
                elif s == f"os.fsync({f}.fileno())":
                    ops.append("WFsync")
                else:
                    fail(inner, "monitor: statement inside the write block")
            ops.append("WClose")
        elif isinstance(st, ast.Expr) and isinstance(st.value, ast.Call) and ast.unparse(st.value.func) == "os.replace":
            a = st.value.args
            if len(a) != 2 or st.value.keywords or tmp_name is None or path(a[0]) != tmp_name:
                fail(st, "monitor: os.replace does not move the temporary file just written")
            if peak_name is not None:
                fail(st, "monitor: the peak file is replaced twice")
            peak_name = path(a[1])
            ops.append("WReplace")
        else:
            fail(st, "monitor: statement in the update block outside the recognised shapes")
    if tmp_name is None or peak_name is None:
        raise Unsupported("monitor: the update does not write a temporary file and move it onto the peak file")
    # the reader
    rd = find_func(tree, "get_peak_memory_gib")
    rsrc = [ast.unparse(s) for s in rd.body]
    want = ["file = out_dir / 'NAME'", "if not file.exists():\n    return None",
            "with open(file, mode='r', encoding='utf-8') as f:\n    peak_mem_gib = float(f.read().strip())",
            "return peak_mem_gib"]
    m = None
    if len(rsrc) == 4 and isinstance(rd.body[0], ast.Assign):
        v = rd.body[0].value
        if (isinstance(v, ast.BinOp) and isinstance(v.op, ast.Div) and ast.unparse(v.left) == "out_dir"
                and isinstance(v.right, ast.Constant) and isinstance(v.right.value, str)):
            m = v.right.value
    if m is None or rsrc[1:] != want[1:]:
        raise Unsupported("get_peak_memory_gib: not `file = out_dir / name; if not exists: None; open; float(read)`")
    hdr = ("(* GENERATED by /verif/translator/py2coq.py from bblean/_memory.py (monitor_rss_process, "
           "get_peak_memory_gib) — do not edit. *)\nFrom BB Require Import Model.Monitor.\n"
           "From Coq Require Import String List.\nImport ListNotations.\n")
    q = lambda s: '"' + s.replace('"', '""') + '"%string'
    return (hdr + "\nDefinition monitor_update_ops (v : PrimFloat.float) : list wop :=\n  ["
            + "; ".join(ops) + "].\n"
            + f"Definition monitor_tmp_name : string := {q(tmp_name)}.\n"
            + f"Definition monitor_peak_name : string := {q(peak_name)}.\n"
            + f"Definition reader_file_name : string := {q(m)}.\n"
            + "(* the reader: exists() test, then open, then parse of the whole content *)\n"
            + "Definition reader_steps : list string := [\"exists\"%string; \"open\"%string; \"read\"%string].\n")


def gen_mem():
    """bblean/_memory.py: _ArrayMemPagesManager.should_release_curr_page /
    release_curr_page_and_update_addr (the madvise call is recorded as an effect)."""
    out = [HEADER.format(src="bblean/_memory.py")]
    sm = {"_pagesizex": ("self_pagesizex", "int"), "_iters_per_pagex": ("self_iters", "int"),
          "_curr_page_start_addr": ("self_addr", "int")}
    out.append(translate_function("bblean/_memory.py", "_ArrayMemPagesManager.should_release_curr_page",
                                  "should_release_curr_page", [("row_idx", "int")], "bool", {}, sm))
    out.append(translate_function("bblean/_memory.py",
                                  "_ArrayMemPagesManager.release_curr_page_and_update_addr",
                                  "release_curr_page_and_update_addr", [], "selfstate", {}, sm,
                                  end_expr=["_curr_page_start_addr"], effects=["_madvise_dontneed"]))

    class MemmapView(ast.NodeTransformer):
        """X is a 2-D np.memmap described by (is_memmap, ndim, cols = X.shape[1], offset = X.offset,
        data = X.ctypes.data); mmap.PAGESIZE is a parameter; cls(...) is the tuple of its arguments"""
        ATTR = {"X.ndim": "ndim", "X.offset": "offset", "X.ctypes.data": "data", "mmap.PAGESIZE": "pagesize"}

        def visit_Call(self, n):
            if isinstance(n.func, ast.Name) and n.func.id == "isinstance" and ast.unparse(n) == "isinstance(X, np.memmap)":
                return ast.copy_location(ast.Name(id="is_memmap", ctx=ast.Load()), n)
            self.generic_visit(n)
            if isinstance(n.func, ast.Name) and n.func.id == "cls" and not n.keywords:
                return ast.copy_location(ast.Tuple(elts=n.args, ctx=ast.Load()), n)
            return n

        def visit_Attribute(self, n):
            u = ast.unparse(n)
            if u in self.ATTR:
                return ast.copy_location(ast.Name(id=self.ATTR[u], ctx=ast.Load()), n)
            self.generic_visit(n)
            return n

        def visit_Subscript(self, n):
            if ast.unparse(n) == "X.shape[1]":
                return ast.copy_location(ast.Name(id="cols", ctx=ast.Load()), n)
            self.generic_visit(n)
            return n

        def visit_Name(self, n):
            if n.id == "X":
                raise Unsupported(f"line {n.lineno}: from_bb_input uses X in an unrecognised way")
            return n
    out.append(translate_function(
        "bblean/_memory.py", "_ArrayMemPagesManager.from_bb_input", "from_bb_input",
        [("is_memmap", "bool"), ("ndim", "int"), ("cols", "int"), ("offset", "int"), ("data", "int"),
         ("pagesize", "int"), ("can_release", "optbool")],
        "tuple:bool,int,int,int", {}, rewrite=MemmapView(), pyparams_expected=["X", "can_release"]))
    return "\n\n".join(out) + "\n"


def translate_loop_body(src_file, qual, coq_name, params, funcs, effects=()):
    """the body of the FIRST for-loop of a function, as a function of the loop variables and
    the enclosing function's parameters; its value is the list of recorded effects"""
    tree = ast.parse((REPO / src_file).read_text())
    fn = find_func(tree, qual)
    loop = next((n for n in ast.walk(fn) if isinstance(n, ast.For)), None)
    if loop is None:
        raise Unsupported(f"{qual}: no for loop")
    env = {p: (p, t) for p, t in params}
    ctx = Ctx(env, "effects", funcs, {}, False)
    ctx.effects = tuple(effects)
    tr = Tr(ctx)
    orig = tr.block

    def block(sts):
        if not sts:
            return "[" + "; ".join(getattr(ctx, "effect_vars", [])) + "]"
        return orig(sts)
    tr.block = block
    body = tr.block(list(loop.body))
    ps = " ".join(f"({p} : {COQTY[t]})" for p, t in params)
    return f"Definition {coq_name} {ps} :=\n  {body}."


DELETERS = {"unlink", "rmtree", "rmdir", "remove", "rename", "replace", "move"}


def _calls(node, names):
    return [c for c in ast.walk(node) if isinstance(c, ast.Call) and isinstance(c.func, ast.Attribute)
            and c.func.attr in names]


def _const_strs(node):
    if isinstance(node, (ast.Tuple, ast.List)) and all(
            isinstance(e, ast.Constant) and isinstance(e.value, str) for e in node.elts):
        return [e.value for e in node.elts]
    return None


def _glob_unlink_loop(st, dirname):
    """`for F in <dirname>.glob(ARG): F.unlink()` -> ARG node, else None"""
    if (isinstance(st, ast.For) and isinstance(st.target, ast.Name) and len(st.body) == 1 and not st.orelse
            and isinstance(st.iter, ast.Call) and isinstance(st.iter.func, ast.Attribute)
            and st.iter.func.attr == "glob" and isinstance(st.iter.func.value, ast.Name)
            and st.iter.func.value.id == dirname and len(st.iter.args) == 1 and not st.iter.keywords):
        b = st.body[0]
        if (isinstance(b, ast.Expr) and isinstance(b.value, ast.Call) and isinstance(b.value.func, ast.Attribute)
                and b.value.func.attr == "unlink" and isinstance(b.value.func.value, ast.Name)
                and b.value.func.value.id == st.target.id and not b.value.args and not b.value.keywords):
            return st.iter.args[0]
    return None


def coq_strs(name, items):
    body = "; ".join('"' + i.replace('"', '""') + '"%string' for i in items)
    return f"Definition {name} : list string := [{body}]."


def gen_mr_deletions():
    """run_multiround_bitbirch: every statement that deletes or renames files must have one of
    three shapes — the start-of-run purge by glob patterns, the purge of the final names, the
    cleanup (under `if cleanup:`) — in that position; anything else fails closed."""
    tree = ast.parse((REPO / "bblean/multiround.py").read_text())
    fn = find_func(tree, "run_multiround_bitbirch")
    body = fn.body
    first_round = next((i for i, st in enumerate(body)
                        if any(isinstance(n, ast.Name) and n.id == "_InitialRound" for n in ast.walk(st))), None)
    final_round = max((i for i, st in enumerate(body)
                       if any(isinstance(n, ast.Name) and n.id == "final_fn" for n in ast.walk(st))), default=None)
    if first_round is None or final_round is None:
        raise Unsupported("run_multiround_bitbirch: round structure not recognised")
    purge_globs, purge_names, cleanup_globs = [], [], []
    for i, st in enumerate(body):
        if not _calls(st, DELETERS):
            continue
        ok = False
        if isinstance(st, ast.For) and isinstance(st.target, ast.Name) and len(st.body) == 1 and not st.orelse:
            consts = _const_strs(st.iter)
            inner = st.body[0]
            if consts is not None and i < first_round:
                arg = _glob_unlink_loop(inner, "out_dir")
                if isinstance(arg, ast.Name) and arg.id == st.target.id:
                    purge_globs += consts
                    ok = True
                elif (isinstance(inner, ast.Expr) and isinstance(inner.value, ast.Call)
                      and isinstance(inner.value.func, ast.Attribute) and inner.value.func.attr == "unlink"
                      and isinstance(inner.value.func.value, ast.BinOp)
                      and isinstance(inner.value.func.value.op, ast.Div)
                      and isinstance(inner.value.func.value.left, ast.Name)
                      and inner.value.func.value.left.id == "out_dir"
                      and isinstance(inner.value.func.value.right, ast.Name)
                      and inner.value.func.value.right.id == st.target.id
                      and not inner.value.args
                      and [(k.arg, getattr(k.value, "value", None)) for k in inner.value.keywords]
                      == [("missing_ok", True)]):
                    purge_names += consts
                    ok = True
        elif (isinstance(st, ast.If) and isinstance(st.test, ast.Name) and st.test.id == "cleanup"
              and not st.orelse and i > final_round):
            args = [_glob_unlink_loop(b, "out_dir") for b in st.body]
            if all(isinstance(a, ast.Constant) and isinstance(a.value, str) for a in args):
                cleanup_globs += [a.value for a in args]
                ok = True
        if not ok:
            raise Unsupported(f"line {st.lineno}: run_multiround_bitbirch deletes/renames files in an "
                              "unrecognised way")
    # out_dir must be the directory itself at the purge: `out_dir = Path(out_dir)` is the only rebinding
    for st in body:
        for n in ast.walk(st):
            if isinstance(n, ast.Assign) and any(isinstance(t, ast.Name) and t.id == "out_dir" for t in n.targets):
                v = n.value
                if not (isinstance(v, ast.Call) and isinstance(v.func, ast.Name) and v.func.id == "Path"
                        and len(v.args) == 1 and isinstance(v.args[0], ast.Name) and v.args[0].id == "out_dir"):
                    raise Unsupported(f"line {n.lineno}: out_dir is rebound")
    return "\n".join([coq_strs("purge_globs", purge_globs), coq_strs("purge_names", purge_names),
                      coq_strs("cleanup_globs", cleanup_globs)])


def gen_mr_prev_globs():
    """_get_prev_round_buf_and_mol_idxs_files: the two glob patterns, as functions of round_idx;
    the result must be list(zip(sorted(glob 1), sorted(glob 2)))"""
    tree = ast.parse((REPO / "bblean/multiround.py").read_text())
    fn = find_func(tree, "_get_prev_round_buf_and_mol_idxs_files")
    ctx = Ctx({"round_idx": ("round_idx", "int")}, "str", {}, {}, False)
    tr = Tr(ctx)
    pats = {}
    ret = None
    for st in fn.body:
        if (isinstance(st, ast.Assign) and len(st.targets) == 1 and isinstance(st.targets[0], ast.Name)
                and isinstance(st.value, ast.Call) and isinstance(st.value.func, ast.Name)
                and st.value.func.id == "sorted" and len(st.value.args) == 1 and not st.value.keywords):
            g = st.value.args[0]
            if (isinstance(g, ast.Call) and isinstance(g.func, ast.Attribute) and g.func.attr == "glob"
                    and isinstance(g.func.value, ast.Name) and g.func.value.id == "path" and len(g.args) == 1):
                t, ty = tr.expr(g.args[0])
                if ty != "str":
                    raise Unsupported("glob pattern is not a string")
                pats[st.targets[0].id] = t
                continue
        if isinstance(st, ast.Assign) and len(st.targets) == 1 and isinstance(st.targets[0], ast.Name) \
                and st.targets[0].id == "path":
            continue
        if isinstance(st, ast.If) and not _calls(st, {"glob"} | DELETERS) and not any(
                isinstance(n, (ast.Assign, ast.AugAssign, ast.Return)) for n in ast.walk(st)):
            continue                      # console printing
        if isinstance(st, ast.Expr) and isinstance(st.value, ast.Constant):
            continue
        if isinstance(st, ast.Return):
            ret = st.value
            continue
        raise Unsupported(f"line {st.lineno}: _get_prev_round_buf_and_mol_idxs_files: unrecognised statement")
    ok = (isinstance(ret, ast.Call) and isinstance(ret.func, ast.Name) and ret.func.id == "list"
          and len(ret.args) == 1 and isinstance(ret.args[0], ast.Call) and isinstance(ret.args[0].func, ast.Name)
          and ret.args[0].func.id == "zip" and len(ret.args[0].args) == 2
          and all(isinstance(a, ast.Name) and a.id in pats for a in ret.args[0].args)
          and ret.args[0].args[0].id != ret.args[0].args[1].id)
    if not ok:
        raise Unsupported("_get_prev_round_buf_and_mol_idxs_files: result is not list(zip(sorted globs))")
    a, b = (pats[x.id] for x in ret.args[0].args)
    return (f"Definition prev_bufs_glob (round_idx : Z) : string := {a}.\n"
            f"Definition prev_idxs_glob (round_idx : Z) : string := {b}.")


def gen_mr_publish():
    """_FinalTreeMergingRound.__call__: the file actions on the output directory, in program order,
    for save_centroids = True / False (save_tree is ignored: bitbirch.pkl is not a result file of
    the properties).  Actions: W name (open(name, "wb")), R src dst (src.replace(dst)).  Any other
    way of writing or renaming below out_dir, a loop or a call to an own helper fails closed."""
    tree = ast.parse((REPO / "bblean/multiround.py").read_text())
    fn = find_func(tree, "_FinalTreeMergingRound.__call__")

    def is_outdir(e):
        return (isinstance(e, ast.Attribute) and e.attr == "out_dir" and isinstance(e.value, ast.Name)
                and e.value.id == "self")

    def name_of(e, env):
        if isinstance(e, ast.Name) and e.id in env:
            return env[e.id]
        if (isinstance(e, ast.BinOp) and isinstance(e.op, ast.Div) and is_outdir(e.left)
                and isinstance(e.right, ast.Constant) and isinstance(e.right.value, str)):
            return e.right.value
        return None

    def run(stmts, env, flag):
        acts = []
        for st in stmts:
            if isinstance(st, ast.Assign) and len(st.targets) == 1 and isinstance(st.targets[0], ast.Name):
                nm = name_of(st.value, env)
                if nm is not None:
                    env[st.targets[0].id] = nm
                    continue
            if isinstance(st, ast.If) and isinstance(st.test, ast.Attribute) and is_outdir_attr(st.test, "save_centroids"):
                acts += run(st.body if flag else st.orelse, env, flag)
                continue
            if isinstance(st, ast.If) and isinstance(st.test, ast.Attribute) and is_outdir_attr(st.test, "save_tree"):
                continue
            if isinstance(st, ast.With) and len(st.items) == 1:
                ce = st.items[0].context_expr
                if (isinstance(ce, ast.Call) and isinstance(ce.func, ast.Name) and ce.func.id == "open"):
                    mode = None
                    if len(ce.args) >= 2 and isinstance(ce.args[1], ast.Constant):
                        mode = ce.args[1].value
                    for k in ce.keywords:
                        if k.arg == "mode" and isinstance(k.value, ast.Constant):
                            mode = k.value.value
                    tgt = name_of(ce.args[0], env) if ce.args else None
                    if mode is not None and "w" in mode:
                        if tgt is None:
                            raise Unsupported(f"line {st.lineno}: write to an unrecognised path")
                        acts.append(("W", tgt))
                        continue
                    if mode is not None and "r" in mode:
                        continue
            if (isinstance(st, ast.Expr) and isinstance(st.value, ast.Call) and isinstance(st.value.func, ast.Attribute)
                    and st.value.func.attr == "replace" and len(st.value.args) == 1):
                src, dst = name_of(st.value.func.value, env), name_of(st.value.args[0], env)
                if src is None or dst is None:
                    raise Unsupported(f"line {st.lineno}: rename of an unrecognised path")
                acts.append(("R", src, dst))
                continue
            # anything else must not touch files of out_dir or call own helpers
            for n in ast.walk(st):
                if isinstance(n, ast.Call):
                    f = n.func
                    if isinstance(f, ast.Attribute) and isinstance(f.value, ast.Name) and f.value.id == "self":
                        raise Unsupported(f"line {n.lineno}: call of self.{f.attr} in the final round")
                    if isinstance(f, ast.Attribute) and f.attr in DELETERS | {"write_bytes", "write_text", "touch"}:
                        raise Unsupported(f"line {n.lineno}: file action .{f.attr} in an unrecognised position")
                    if isinstance(f, ast.Name) and f.id == "open":
                        md = [a.value for a in n.args[1:2] if isinstance(a, ast.Constant)] + \
                             [k.value.value for k in n.keywords if k.arg == "mode" and isinstance(k.value, ast.Constant)]
                        if not md or "r" not in md[0]:
                            raise Unsupported(f"line {n.lineno}: open() for writing in an unrecognised position")
                if isinstance(n, ast.BinOp) and isinstance(n.op, ast.Div) and is_outdir(n.left) \
                        and not (isinstance(st, ast.If)):
                    pass
        return acts

    def is_outdir_attr(e, attr):
        return isinstance(e, ast.Attribute) and e.attr == attr and isinstance(e.value, ast.Name) and e.value.id == "self"

    def coq_acts(acts):
        items = []
        for a in acts:
            if a[0] == "W":
                items.append('PW "%s"%%string' % a[1])
            else:
                items.append('PR "%s"%%string "%s"%%string' % (a[1], a[2]))
        return "[" + "; ".join(items) + "]"
    t = run(list(fn.body), {}, True)
    f = run(list(fn.body), {}, False)
    return ("Inductive pub_action := PW (name : string) | PR (src dst : string).\n"
            f"Definition final_publish (save_centroids : bool) : list pub_action :=\n"
            f"  if save_centroids then {coq_acts(t)}\n  else {coq_acts(f)}.")


def gen_mr_batch_plan():
    """_chunk_file_pairs_in_batches and _get_files_range_tuples: how tasks are formed and labelled.
    Shape checks (fail closed): the batches are exactly
        [(str(i).zfill(z), _sort_batch(b)) for i, b in enumerate(batched(file_pairs, bin_size))]
    with the UNMODIFIED parameters, called from run_multiround_bitbirch as
    _chunk_file_pairs_in_batches(file_pairs, bin_size, console); the file tasks are labelled
    str(i).zfill(z) in input order with running start/end indices.  The two width expressions z are
    translated."""
    tree = ast.parse((REPO / "bblean/multiround.py").read_text())
    fn = find_func(tree, "_chunk_file_pairs_in_batches")
    params = [a.arg for a in fn.args.args + fn.args.kwonlyargs]
    if params != ["file_pairs", "bin_size", "console"]:
        raise Unsupported(f"_chunk_file_pairs_in_batches: parameters changed: {params}")
    zexpr, comp, ret = None, None, None
    for st in fn.body:
        if isinstance(st, ast.Expr) and isinstance(st.value, ast.Constant):
            continue
        if isinstance(st, ast.Assign) and len(st.targets) == 1 and isinstance(st.targets[0], ast.Name):
            nm = st.targets[0].id
            if nm == "z" and zexpr is None:
                zexpr = st.value
                continue
            if nm == "batches" and comp is None:
                comp = st.value
                continue
            raise Unsupported(f"line {st.lineno}: _chunk_file_pairs_in_batches assigns {nm}")
        if isinstance(st, ast.If) and not any(isinstance(n, (ast.Assign, ast.AugAssign, ast.Return, ast.NamedExpr))
                                              for n in ast.walk(st)):
            continue                          # console output
        if isinstance(st, ast.Return):
            ret = st.value
            continue
        raise Unsupported(f"line {st.lineno}: _chunk_file_pairs_in_batches: unrecognised statement")
    want = "[(str(i).zfill(z), _sort_batch(b)) for i, b in enumerate(batched(file_pairs, bin_size))]"
    if comp is None or ast.unparse(comp) != want or zexpr is None \
            or not (isinstance(ret, ast.Name) and ret.id == "batches"):
        raise Unsupported("_chunk_file_pairs_in_batches: the batch plan is not the recognised comprehension")
    ctx = Ctx({"n_pairs": ("n_pairs", "int"), "bin_size": ("bin_size", "int")}, "int", {}, {}, False)

    class LenPairs(ast.NodeTransformer):
        def visit_Call(self, n):
            if ast.unparse(n) == "len(file_pairs)":
                return ast.copy_location(ast.Name(id="n_pairs", ctx=ast.Load()), n)
            self.generic_visit(n)
            return n
    z1, ty = Tr(ctx).expr(ast.fix_missing_locations(LenPairs().visit(zexpr)))
    if ty != "int":
        raise Unsupported("batch label width is not an integer")
    # call site
    run = find_func(tree, "run_multiround_bitbirch")
    calls = [c for c in ast.walk(run) if isinstance(c, ast.Call) and isinstance(c.func, ast.Name)
             and c.func.id == "_chunk_file_pairs_in_batches"]
    if not calls or any(ast.unparse(c) != "_chunk_file_pairs_in_batches(file_pairs, bin_size, console)" for c in calls):
        raise Unsupported("run_multiround_bitbirch: _chunk_file_pairs_in_batches is not called with "
                          "(file_pairs, bin_size, console)")
    for n in ast.walk(run):
        if isinstance(n, (ast.Assign, ast.AugAssign)):
            tg = n.targets if isinstance(n, ast.Assign) else [n.target]
            if any(isinstance(t, ast.Name) and t.id == "bin_size" for t in tg):
                raise Unsupported(f"line {n.lineno}: bin_size is reassigned in run_multiround_bitbirch")
    # file tasks
    fr = find_func(tree, "_get_files_range_tuples")
    src = ast.unparse(fr)
    need = ["running_idx = 0", "z = len(str(len(files)))", "for i, file in enumerate(files):",
            "start_idx = running_idx", "end_idx = running_idx + _get_fps_file_num(file)",
            "files_info.append((str(i).zfill(z), file, start_idx, end_idx))", "running_idx = end_idx",
            "return files_info"]
    body_lines = [l.strip() for l in src.splitlines()[1:] if l.strip() and not l.strip().startswith(("'", '"'))]
    if [l for l in body_lines if l != "files_info = []"] != need:
        raise Unsupported("_get_files_range_tuples: the labelling / numbering loop changed")
    return (f"Definition batch_label_width (n_pairs bin_size : Z) : Z :=\n  {z1}.\n"
            "Definition file_label_width (n_files : Z) : Z :=\n  (Z.of_nat (String.length (str_of_Z n_files))).")


def gen_mr():
    """bblean/multiround.py: the names of the files written by _save_bufs_and_mol_idxs"""
    out = [HEADER.format(src="bblean/multiround.py")]
    out.append(translate_loop_body(
        "bblean/multiround.py", "_save_bufs_and_mol_idxs", "save_names",
        [("out_dir", "path"), ("label", "str"), ("round_idx", "int"), ("dtype", "str")],
        {}, effects=["_numpy_streaming_save", "open"]))
    out.append(gen_mr_prev_globs())
    out.append(gen_mr_batch_plan())
    return "\n\n".join(out) + "\n"


def gen_mr_del():
    """bblean/multiround.py: what the workflow deletes and how it publishes its final files"""
    out = [HEADER.format(src="bblean/multiround.py (deletion and publication plans)")]
    out.append(gen_mr_deletions())
    out.append(gen_mr_publish())
    return "\n\n".join(out) + "\n"


def gen_split_plan():
    """cli._split_fps: (rows per part, digits of the zero-padded part index) as a function of the
    number of rows and the two mutually exclusive options; Abort() is the error value.  The
    statements between `fps = np.load(...)` and `stem = ...` plus the `parts < 2` guard are
    translated; console output is dropped; `fps.shape[0]` is the parameter n."""
    tree = ast.parse((REPO / "bblean/cli.py").read_text())
    fn = find_func(tree, "_split_fps")
    body = list(fn.body)
    i_load = next((i for i, st in enumerate(body) if isinstance(st, ast.Assign) and len(st.targets) == 1
                   and isinstance(st.targets[0], ast.Name) and st.targets[0].id == "fps"), None)
    i_stem = next((i for i, st in enumerate(body) if isinstance(st, ast.Assign) and len(st.targets) == 1
                   and isinstance(st.targets[0], ast.Name) and st.targets[0].id == "stem"), None)
    if i_load is None or i_stem is None or not i_load < i_stem:
        raise Unsupported("_split_fps: structure not recognised")
    guards = [st for st in body[:i_load] if isinstance(st, ast.If)
              and any(isinstance(n, ast.Name) and n.id in ("parts", "max_fps_per_file") for n in ast.walk(st.test))]
    stmts = guards + body[i_load + 1:i_stem]

    class Clean(ast.NodeTransformer):
        def visit_Expr(self, n):
            if isinstance(n.value, ast.Call) and isinstance(n.value.func, ast.Attribute) \
                    and isinstance(n.value.func.value, ast.Name) and n.value.func.value.id == "console":
                return None
            return n

        def visit_Subscript(self, n):
            if ast.unparse(n) == "fps.shape[0]":
                return ast.copy_location(ast.Name(id="n", ctx=ast.Load()), n)
            self.generic_visit(n)
            return n

        def visit_Name(self, n):
            if n.id == "fps":
                raise Unsupported(f"line {n.lineno}: _split_fps uses fps other than through fps.shape[0]")
            return n
    mod = ast.Module(body=stmts, type_ignores=[])
    mod = Clean().visit(mod)
    ret = ast.Return(value=ast.Tuple(elts=[ast.Name(id="num_per_batch", ctx=ast.Load()),
                                            ast.Name(id="digits", ctx=ast.Load())], ctx=ast.Load()))
    stmts = list(mod.body) + [ret]
    for st in stmts:
        ast.fix_missing_locations(st)
    ctx = Ctx({"n": ("n", "int"), "parts": ("parts", "optint"), "max_fps_per_file": ("max_fps_per_file", "optint")},
              "tuple:int,int", {}, {}, True)
    body_t = Tr(ctx).block(stmts)
    return ("Definition split_plan (n : Z) (parts : option Z) (max_fps_per_file : option Z) :=\n  " + body_t + ".")


def gen_util():
    """bblean/cli.py: parse_num_per_batch (nested in _fps_from_smiles)"""
    out = [HEADER.format(src="bblean/cli.py")]
    out.append(translate_function(
        "bblean/cli.py", "_fps_from_smiles.parse_num_per_batch", "parse_num_per_batch",
        [("smiles_num", "int"), ("parts", "optint"), ("max_fps_per_file", "optint")],
        "tuple:int,int,optint", {}, raises=True))
    out.append(gen_split_plan())
    return "\n\n".join(out) + "\n"


# ---------------------------------------------------------------- bb run: the plan of API calls
CLI_OPTS = {"merge_criterion": ("(ro_merge o)", "cname"), "tolerance": ("(ro_tol o)", "f64"),
            "threshold": ("(ro_thr o)", "f64"), "branching_factor": ("(ro_bf o)", "int"),
            "refine_merge_criterion": ("(ro_refine_merge o)", "cname"),
            "refine_threshold_change": ("(ro_change o)", "f64"), "refine_num": ("num", "int"),
            "refine_rounds": ("rounds", "int"), "recluster_rounds": ("(ro_recluster_rounds o)", "int"),
            "save_tree": ("(ro_save_tree o)", "bool")}


def gen_cli():
    """cli._run: (1) the normalisation of --refine-num / --refine-rounds, translated; (2) the sequence of
    calls the command makes on the estimator it creates (the `plan`), obtained by walking the statements of
    _run that mention `tree`, for the lean variant.  Every such statement must have a recognised shape;
    anything else is a failed translation.  Console / timer / file statements are not part of the plan."""
    tree = ast.parse((REPO / "bblean/cli.py").read_text())
    fn = find_func(tree, "_run")
    body = list(fn.body)

    def mentions(node, name):
        return any(isinstance(n, ast.Name) and n.id == name for n in ast.walk(node))
    first_tree = next((i for i, st in enumerate(body) if mentions(st, "tree")), None)
    if first_tree is None:
        raise Unsupported("_run: no estimator")
    # ---- (1) option normalisation: the `if` statements before the estimator exists that assign the options
    norm = [st for st in body[:first_tree] if isinstance(st, ast.If)
            and any(isinstance(n, ast.Name) and isinstance(n.ctx, ast.Store) and n.id in ("refine_rounds", "refine_num")
                    for n in ast.walk(st))]
    for st in body:
        if st in norm:
            continue
        for n in ast.walk(st):
            if isinstance(n, ast.Name) and isinstance(n.ctx, ast.Store) and n.id in CLI_OPTS:
                raise Unsupported(f"line {n.lineno}: _run re-assigns the option {n.id} outside the normalisation")
    ret = ast.Return(value=ast.Tuple(elts=[ast.Name(id="refine_num", ctx=ast.Load()),
                                            ast.Name(id="refine_rounds", ctx=ast.Load())], ctx=ast.Load()))
    stmts = norm + [ret]
    for st in stmts:
        ast.fix_missing_locations(st)
    ctx = Ctx({"refine_num": ("refine_num", "int"), "refine_rounds": ("refine_rounds", "optint")},
              "tuple:int,int", {}, {}, False)
    norm_t = Tr(ctx).block(stmts)
    # ---- input files: sorted by name, or the single file
    for st in ast.walk(fn):
        if isinstance(st, ast.Assign) and any(isinstance(t, ast.Name) and t.id == "input_files" for t in st.targets):
            if ast.unparse(st.value) not in ("sorted(input_.glob('*.npy'))", "[input_]"):
                raise Unsupported(f"line {st.lineno}: input_files = {ast.unparse(st.value)}")

    # ---- (2) the plan
    def ex(e):
        """option expressions: (coq term, type)"""
        if isinstance(e, ast.Name) and e.id in CLI_OPTS:
            return CLI_OPTS[e.id]
        if isinstance(e, ast.Constant) and isinstance(e.value, int) and not isinstance(e.value, bool):
            return str(e.value), "int"
        if isinstance(e, ast.BinOp) and isinstance(e.op, ast.Add):
            a, ta = ex(e.left)
            b, tb = ex(e.right)
            if ta == tb == "f64":
                return f"({a} + {b})%float", "f64"
            if ta == tb == "int":
                return f"({a} + {b})", "int"
        if isinstance(e, ast.Compare) and len(e.ops) == 1:
            a, ta = ex(e.left)
            b, tb = ex(e.comparators[0])
            if ta == tb == "int":
                op = e.ops[0]
                if isinstance(op, ast.NotEq):
                    return f"negb ({a} =? {b})", "bool"
                if isinstance(op, ast.Eq):
                    return f"({a} =? {b})", "bool"
                if isinstance(op, ast.Gt):
                    return f"({b} <? {a})", "bool"
        if isinstance(e, ast.BoolOp):
            parts = [ex(v) for v in e.values]
            if all(t == "bool" for _, t in parts):
                return (" || " if isinstance(e.op, ast.Or) else " && ").join(p for p, _ in parts), "bool"
        raise Unsupported(f"line {getattr(e, 'lineno', '?')}: _run: option expression {ast.unparse(e)}")

    def kwargs(call, want):
        got = {k.arg: k.value for k in call.keywords}
        if set(got) != set(want):
            raise Unsupported(f"line {call.lineno}: keyword arguments {sorted(got)} (expected {sorted(want)})")
        return got

    def variant_branch(st):
        """for a test on `variant`, the branch taken by the lean variant; None if not such a test"""
        t = ast.unparse(st.test)
        if t in ("'lean' not in variant", "variant != 'lean'"):
            return st.orelse
        if t in ("'lean' in variant", "variant == 'lean'"):
            return st.body
        if mentions(st.test, "variant"):
            raise Unsupported(f"line {st.lineno}: test on variant: {t}")
        return None

    def tree_call(call, loopvar):
        m = call.func.attr
        if m == "fit":
            kwargs(call, ["n_features", "input_is_packed", "max_fps"])
            if not (len(call.args) == 1 and isinstance(call.args[0], ast.Name) and call.args[0].id == loopvar):
                raise Unsupported(f"line {call.lineno}: fit of something else than the file of this iteration")
            return ["FIT"]
        if m == "set_merge":
            kw = kwargs(call, ["tolerance", "threshold"])
            if len(call.args) != 1:
                raise Unsupported(f"line {call.lineno}: set_merge arguments")
            (nm, t0), (tol, t1), (thr, t2) = ex(call.args[0]), ex(kw["tolerance"]), ex(kw["threshold"])
            if (t0, t1, t2) != ("cname", "f64", "f64"):
                raise Unsupported(f"line {call.lineno}: set_merge argument types")
            return [f"[ASetMerge {nm} {tol} {thr}]"]
        if m == "refine_inplace":
            kw = kwargs(call, ["input_is_packed", "n_largest"])
            if not (len(call.args) == 1 and isinstance(call.args[0], ast.Name) and call.args[0].id == "input_files"):
                raise Unsupported(f"line {call.lineno}: refinement reads something else than the input files")
            n, tn = ex(kw["n_largest"])
            if tn != "int":
                raise Unsupported(f"line {call.lineno}: n_largest")
            return [f"[ARefine {n}]"]
        if m == "recluster_inplace":
            kwargs(call, ["shuffle"])
            return ["[ARecluster]"]
        if m == "save":
            return ["[ASaveTree]"]
        if m == "delete_internal_nodes":
            return []
        if m in ("get_cluster_mol_ids", "get_centroids_mol_ids") and not call.args and not call.keywords:
            return ["[ASave]"]
        raise Unsupported(f"line {call.lineno}: call tree.{m}")

    def join(segs):
        out = []
        for sg in segs:
            if sg == "[ASave]" and out and out[-1] == "[ASave]":
                continue
            out.append(sg)
        return " ++ ".join(out) if out else "[]"

    def plan(stmts, loopvar=None):
        segs = []
        for st in stmts:
            if not mentions(st, "tree"):
                continue
            if isinstance(st, ast.With):
                if any(mentions(it.context_expr, "tree") for it in st.items):
                    raise Unsupported(f"line {st.lineno}: estimator used in a with-item")
                segs += plan(st.body, loopvar)
            elif isinstance(st, ast.If):
                if mentions(st.test, "tree"):
                    raise Unsupported(f"line {st.lineno}: test on the estimator")
                br = variant_branch(st)
                if br is not None:
                    segs += plan(br, loopvar)
                elif ast.unparse(st.test) == "save_centroids":
                    a, b = join(plan(st.body, loopvar)), join(plan(st.orelse, loopvar))
                    if a != b:
                        raise Unsupported(f"line {st.lineno}: --save-centroids changes the calls made: {a} / {b}")
                    segs.append(a)
                else:
                    c, tc = ex(st.test)
                    if tc != "bool":
                        raise Unsupported(f"line {st.lineno}: test")
                    segs.append(f"(if {c} then {join(plan(st.body, loopvar))} else {join(plan(st.orelse, loopvar))})")
            elif isinstance(st, ast.For):
                if st.orelse or not isinstance(st.target, ast.Name):
                    raise Unsupported(f"line {st.lineno}: loop shape")
                if isinstance(st.iter, ast.Name) and st.iter.id == "input_files":
                    if plan(st.body, st.target.id) != ["FIT"]:
                        raise Unsupported(f"line {st.lineno}: the loop over the input files does not fit each once")
                    segs.append("map AFitFile (seq 0 nfiles)")
                elif (isinstance(st.iter, ast.Call) and isinstance(st.iter.func, ast.Name) and st.iter.func.id == "range"
                      and len(st.iter.args) == 1):
                    n, tn = ex(st.iter.args[0])
                    inner = plan(st.body, loopvar)
                    if tn != "int" or len(inner) != 1 or not (inner[0].startswith("[") and ";" not in inner[0]):
                        raise Unsupported(f"line {st.lineno}: repeated block is not one call")
                    segs.append(f"repeat ({inner[0][1:-1]}) (Z.to_nat {n})")
                else:
                    raise Unsupported(f"line {st.lineno}: loop over {ast.unparse(st.iter)}")
            elif (isinstance(st, ast.Assign) and len(st.targets) == 1 and isinstance(st.targets[0], ast.Name)
                  and st.targets[0].id == "tree"):
                v = st.value
                if not (isinstance(v, ast.Call) and isinstance(v.func, ast.Name) and v.func.id == "BitBirch" and not v.args):
                    raise Unsupported(f"line {st.lineno}: estimator construction")
                kw = kwargs(v, ["branching_factor", "threshold", "merge_criterion", "tolerance"])
                (m, t0), (tol, t1), (thr, t2), (bf, t3) = (ex(kw["merge_criterion"]), ex(kw["tolerance"]),
                                                           ex(kw["threshold"]), ex(kw["branching_factor"]))
                if (t0, t1, t2, t3) != ("cname", "f64", "f64", "int"):
                    raise Unsupported(f"line {st.lineno}: constructor argument types")
                segs.append(f"[ACtor {m} {tol} {thr} {bf}]")
            else:
                # an expression / assignment statement: every use of the estimator is a method call
                calls = [n for n in ast.walk(st) if isinstance(n, ast.Call) and isinstance(n.func, ast.Attribute)
                         and isinstance(n.func.value, ast.Name) and n.func.value.id == "tree"]
                uses = sum(1 for n in ast.walk(st) if isinstance(n, ast.Name) and n.id == "tree")
                if not isinstance(st, (ast.Expr, ast.Assign)) or uses != len(calls):
                    raise Unsupported(f"line {st.lineno}: the estimator is used outside a method call")
                for c in calls:
                    segs += tree_call(c, loopvar)
        return segs
    plan_t = join(plan(body[first_tree:]))
    if "FIT" in plan_t:
        raise Unsupported("_run: a fit outside the loop over the input files")
    hdr = ("(* GENERATED by /verif/translator/py2coq.py from bblean/cli.py (_run) — do not edit. *)\n"
           "From BB Require Import Model.Base Gen.NumpySem Model.Cli.\nFrom Coq Require Import String.\n"
           "Open Scope Z_scope.\n")
    return (hdr + "\nDefinition norm_refine (refine_num : Z) (refine_rounds : option Z) :=\n  " + norm_t + ".\n\n"
            "Definition run_plan (o : run_opts) (nfiles : nat) : list api_call :=\n"
            "  let '(num, rounds) := norm_refine (ro_refine_num o) (ro_refine_rounds o) in\n  " + plan_t + ".\n")


def gen_cli_validate():
    """cli._validate_output_dir(out_dir, overwrite): a decision tree over three observations of the
    directory (exists(), is_dir(), any(iterdir())) and the flag; leaves: nothing / raise / rmtree followed
    by mkdir of the same directory.  Any other statement, condition or leaf is a failed translation.  The
    two commands must call it as _validate_output_dir(out_dir, overwrite) before anything else touches
    out_dir."""
    tree = ast.parse((REPO / "bblean/cli.py").read_text())
    fn = find_func(tree, "_validate_output_dir")
    args = [a.arg for a in fn.args.args]
    if args != ["out_dir", "overwrite"] or fn.args.vararg or fn.args.kwarg or fn.args.kwonlyargs:
        raise Unsupported(f"_validate_output_dir: parameters {args}")
    dflt = fn.args.defaults
    if len(dflt) != 1 or not (isinstance(dflt[0], ast.Constant) and dflt[0].value is False):
        raise Unsupported("_validate_output_dir: default of overwrite is not False")
    CONDS = {"out_dir.exists()": "exists_", "out_dir.is_dir()": "is_dir",
             "any(out_dir.iterdir())": "nonempty", "overwrite": "overwrite"}

    def cond(e):
        if isinstance(e, ast.UnaryOp) and isinstance(e.op, ast.Not):
            return f"(negb {cond(e.operand)})"
        if isinstance(e, ast.BoolOp):
            op = "andb" if isinstance(e.op, ast.And) else "orb"
            out = cond(e.values[0])
            for v in e.values[1:]:
                out = f"({op} {out} {cond(v)})"
            return out
        s = ast.unparse(e)
        if s in CONDS:
            return CONDS[s]
        fail(e, "_validate_output_dir: unknown condition")

    def msg_kind(e):
        # the two messages are told apart by their text: "... should be a dir" / "... has files"
        txt = "".join(v.value for v in ast.walk(e) if isinstance(v, ast.Constant) and isinstance(v.value, str))
        if "should be a dir" in txt:
            return "VdErrNotDir"
        if "has files" in txt:
            return "VdErrHasFiles"
        fail(e, "_validate_output_dir: unknown error message")

    def block(stmts, rest):
        """result of running stmts and then `rest` (a coq term)"""
        if not stmts:
            return rest
        st, tl = stmts[0], stmts[1:]
        if isinstance(st, ast.Expr) and isinstance(st.value, ast.Constant) and isinstance(st.value.value, str):
            return block(tl, rest)            # docstring
        if isinstance(st, ast.Pass):
            return block(tl, rest)
        if isinstance(st, ast.If):
            return (f"(if {cond(st.test)} then {block(st.body + tl, rest)} "
                    f"else {block(st.orelse + tl, rest)})")
        if isinstance(st, ast.Raise):
            e = st.exc
            if not (isinstance(e, ast.Call) and ast.unparse(e.func) == "RuntimeError" and len(e.args) == 1):
                fail(st, "_validate_output_dir: raise of something else than RuntimeError(msg)")
            return msg_kind(e.args[0])
        if isinstance(st, ast.Expr) and ast.unparse(st.value) == "shutil.rmtree(out_dir)":
            if not (tl and isinstance(tl[0], ast.Expr) and ast.unparse(tl[0].value) in
                    ("out_dir.mkdir()", "out_dir.mkdir(exist_ok=True)")):
                fail(st, "_validate_output_dir: rmtree(out_dir) is not followed by out_dir.mkdir()")
            if rest != "VdOk":
                fail(st, "_validate_output_dir: clearing inside a nested continuation")
            after = block(tl[1:], "VdOk")
            if after != "VdOk":
                fail(st, "_validate_output_dir: statements after the directory was cleared")
            return "VdCleared"
        if isinstance(st, ast.Return) and st.value is None:
            return rest if rest in ("VdOk",) else fail(st, "_validate_output_dir: return")
        fail(st, "_validate_output_dir: statement outside the recognised shapes")

    body_t = block(list(fn.body), "VdOk")
    # call sites: every command that validates calls _validate_output_dir(out_dir, overwrite)
    sites = []
    for f in ast.walk(tree):
        if isinstance(f, ast.FunctionDef) and f.name != "_validate_output_dir":
            for c in ast.walk(f):
                if isinstance(c, ast.Call) and ast.unparse(c.func) == "_validate_output_dir":
                    s = ast.unparse(c)
                    if s not in ("_validate_output_dir(out_dir, overwrite)",
                                 "_validate_output_dir(out_dir, overwrite=overwrite)"):
                        raise Unsupported(f"line {c.lineno}: {f.name} calls {s}")
                    sites.append(f.name)
    for need in ("_run", "_multiround"):
        if need not in sites:
            raise Unsupported(f"{need} does not call _validate_output_dir(out_dir, overwrite)")
    hdr = ("(* GENERATED by /verif/translator/py2coq.py from bblean/cli.py (_validate_output_dir) — do not edit. *)\n"
           "From BB Require Import Model.Cli.\nFrom Coq Require Import Bool String List.\nImport ListNotations.\n")
    return (hdr + "\nDefinition validate_out (exists_ is_dir nonempty overwrite : bool) : vd_result :=\n  "
            + body_t + ".\n\nDefinition validate_call_sites : list string := ["
            + "; ".join(f'"{s}"%string' for s in sorted(set(sites))) + "].\n")


def gen_config():
    """BitBirch.__init__ / set_merge / the merge_criterion and tolerance property setters / the tolerance
    getter (bblean/bitbirch.py): the merge-configuration logic as a decision tree over a closed set of tests
    (`X is None`, `X is not None`, isinstance(X, MergeAcceptFunction | str), hasattr(<merge fn>, "tolerance"),
    `not C`) with leaves in the vocabulary of Model/Config.v (get_merge_accept_fn, crit_tolerance,
    crit_set_tolerance, mkCfg).  The order of the tests, which value is passed where and the constants
    (default tolerance, default criterion name) come from the source.  Values are typed (f64, optf, int,
    optint, critarg, crit, cname, optcrit, none) and tests refine them (flow typing); the three shapes of
    the criterion argument (None / str / MergeAcceptFunction) are the constructors of `critarg`.
    ValueError is `None`.  In set_merge a raise (or a call that may raise) after an assignment to self.* is
    refused: the model's "None = nothing changed" would be wrong.  Any other statement, condition or
    expression is a failed translation."""
    import collections
    V = collections.namedtuple("V", "term ty")
    NONE = V("None", "none")

    class NoMerge(Exception):
        """an if-statement cannot be turned into per-variable conditional values"""

    tree = ast.parse((REPO / "bblean/bitbirch.py").read_text())
    cls = find_func(tree, "BitBirch")
    if not isinstance(cls, ast.ClassDef):
        raise Unsupported("BitBirch is not a class")

    def method(name, deco):
        """the unique method of BitBirch called `name` whose decorator list unparses to `deco`"""
        hits = [n for n in cls.body if isinstance(n, ast.FunctionDef) and n.name == name
                and [ast.unparse(d) for d in n.decorator_list] == deco]
        if len(hits) != 1:
            raise Unsupported(f"BitBirch.{name} with decorators {deco}: {len(hits)} definitions")
        return hits[0]

    def signature(fn, want_pos, want_kw):
        """parameters (name -> annotation text) must be exactly the expected ones; defaults returned"""
        a = fn.args
        if a.vararg or a.kwarg or a.posonlyargs:
            raise Unsupported(f"{fn.name}: *args/**kwargs/positional-only parameters")
        pos = {p.arg: (ast.unparse(p.annotation) if p.annotation else None) for p in a.args}
        kw = {p.arg: (ast.unparse(p.annotation) if p.annotation else None) for p in a.kwonlyargs}
        if pos != want_pos or kw != want_kw:
            raise Unsupported(f"{fn.name}: parameters {pos} / {kw}, expected {want_pos} / {want_kw}")
        dpos = dict(zip([p.arg for p in a.args][len(a.args) - len(a.defaults):], a.defaults))
        dkw = {p.arg: d for p, d in zip(a.kwonlyargs, a.kw_defaults) if d is not None}
        return {k: ast.unparse(v) for k, v in {**dpos, **dkw}.items()}

    # ---- criterion names: string -> cname constructor, read off _merges.get_merge_accept_fn ----
    CLASS2NAME = {"RadiusMerge": "NRadius", "DiameterMerge": "NDiameter", "ToleranceMerge": "NTolLegacy",
                  "ToleranceDiameterMerge": "NTolDiameter", "ToleranceRadiusMerge": "NTolRadius",
                  "NeverMerge": "NNever"}
    mtree = ast.parse((REPO / "bblean/_merges.py").read_text())
    gm = find_func(mtree, "get_merge_accept_fn")
    if [p.arg for p in gm.args.args] != ["merge_criterion", "tolerance"]:
        raise Unsupported("get_merge_accept_fn: parameters")
    names = {}
    node = [s for s in gm.body if not (isinstance(s, ast.Expr) and isinstance(s.value, ast.Constant))]
    if len(node) != 2 or not isinstance(node[0], ast.If) or not isinstance(node[1], ast.Raise):
        raise Unsupported("get_merge_accept_fn: not an if-chain on the name followed by a raise")
    cur = node[0]
    while True:
        t = cur.test
        if not (isinstance(t, ast.Compare) and len(t.ops) == 1 and isinstance(t.ops[0], ast.Eq)
                and ast.unparse(t.left) == "merge_criterion" and isinstance(t.comparators[0], ast.Constant)
                and isinstance(t.comparators[0].value, str) and len(cur.body) == 1
                and isinstance(cur.body[0], ast.Return) and isinstance(cur.body[0].value, ast.Call)
                and ast.unparse(cur.body[0].value.func) in CLASS2NAME):
            fail(cur, "get_merge_accept_fn: branch is not `name == <str>: return <MergeClass>(...)`")
        names.setdefault(t.comparators[0].value, CLASS2NAME[ast.unparse(cur.body[0].value.func)])
        if not cur.orelse:
            break
        if len(cur.orelse) != 1 or not isinstance(cur.orelse[0], ast.If):
            fail(cur, "get_merge_accept_fn: else-branch is not a further test of the name")
        cur = cur.orelse[0]

    fresh = [0]

    def var(stem):
        fresh[0] += 1
        return f"{stem}{fresh[0]}"

    RESERVED = {"self", "_global_merge_accept", "MergeAcceptFunction", "get_merge_accept_fn", "str",
                "isinstance", "hasattr", "ValueError", "_BITBIRCH_INSTANCES"}
    FN, THR, BF, STOL, HAS, DIRTY = ("self._merge_accept_fn", "self.threshold", "self.branching_factor",
                                     "self.tolerance", "$hasattr", "$dirty")
    FIELD_TY = {FN: "crit", THR: "f64", BF: "int"}

    def lift(v, ty, node):
        """present value v at the (wider) type ty"""
        if v.ty == ty:
            return v.term
        if ty in ("optf", "optint", "optcrit"):
            base = {"optf": "f64", "optint": "int", "optcrit": "crit"}[ty]
            if v.ty == base:
                return f"(Some {v.term})"
            if v.ty == "none":
                return "None"
        fail(node, f"config: a value of type {v.ty} where {ty} is needed")

    def join(vals, node):
        tys = {v.ty for v in vals}
        if len(tys) == 1:
            return tys.pop()
        for base, opt in (("f64", "optf"), ("int", "optint")):
            if tys <= {base, opt, "none"}:
                return opt
        raise NoMerge()           # e.g. str / object / None: keep the case split instead

    def match(scrut, arms):
        one = f"(match {scrut} with " + " | ".join(f"{p} => {t}" for p, t in arms) + " end)"
        if len(one) <= 100 and "\n" not in one:
            return one
        ind = lambda t: t.replace("\n", "\n    ")
        return f"(match {scrut} with\n" + "".join(f"| {p} =>\n    {ind(t)}\n" for p, t in arms) + "end)"

    def ev(e, env):
        """value of a (pure, non-raising) expression"""
        if isinstance(e, ast.Constant):
            if e.value is None:
                return NONE
            if isinstance(e.value, float):
                return V(cfloat(e.value), "f64")
            if isinstance(e.value, str):
                return V(names.get(e.value, "NUnknown"), "cname")
            fail(e, "config: constant")
        if isinstance(e, ast.Name):
            if e.id in env and e.id not in (HAS, DIRTY):
                return env[e.id]
            fail(e, "config: unknown or unbound name")
        if isinstance(e, ast.Attribute):
            s = ast.unparse(e)
            if s == STOL:                       # the property: its getter applied to the current merge function
                if STOL in env:
                    return env[STOL]
                return V(f"(tolerance_of {field(FN, env, e).term})", "optf")
            if s in FIELD_TY:
                return field(s, env, e)
            if e.attr == "tolerance":           # <merge function>.tolerance: only under a hasattr guard
                o = ev(e.value, env)
                h = env.get(HAS)
                if o.ty == "crit" and h is not None and h[0] == o.term and h[1] is not None:
                    return V(h[1], "f64")
                fail(e, "config: .tolerance read without a hasattr(…, 'tolerance') guard on the same object")
            fail(e, "config: attribute")
        if isinstance(e, ast.IfExp):
            scrut, cases = cond(e.test, env)
            if scrut is None:
                return ev(e.body if cases[0][2] else e.orelse, {**env, **cases[0][1]})
            vals = [ev(e.body if truth else e.orelse, {**env, **ref}) for _, ref, truth in cases]
            ty = join(vals, e)
            return V(match(scrut, [(c[0], lift(v, ty, e)) for c, v in zip(cases, vals)]), ty)
        fail(e, "config: expression outside the recognised shapes")

    def field(key, env, node):
        if key not in env:
            fail(node, f"config: {key} is read before it is assigned")
        return env[key]

    def cond(e, env):
        """-> (scrutinee | None, [(pattern, refinements, truth)]); scrutinee None = decided statically"""
        if isinstance(e, ast.UnaryOp) and isinstance(e.op, ast.Not):
            scrut, cases = cond(e.operand, env)
            return scrut, [(p, r, not t) for p, r, t in cases]
        if (isinstance(e, ast.Compare) and len(e.ops) == 1 and isinstance(e.ops[0], (ast.Is, ast.IsNot))
                and isinstance(e.comparators[0], ast.Constant) and e.comparators[0].value is None):
            is_none = isinstance(e.ops[0], ast.Is)
            key = ast.unparse(e.left)
            if not (isinstance(e.left, ast.Name) or key == STOL):
                fail(e, "config: `is None` test of something else than a variable or self.tolerance")
            v = ev(e.left, env)
            if v.ty == "none":
                return None, [(None, {}, is_none)]
            if v.ty in ("f64", "int", "crit", "cname"):
                return None, [(None, {}, not is_none)]
            if v.ty in ("optf", "optint", "optcrit"):
                base, stem = {"optf": ("f64", "t"), "optint": ("int", "k"), "optcrit": ("crit", "gc")}[v.ty]
                x = var(stem)
                return v.term, [(f"Some {x}", {key: V(x, base)}, not is_none), ("None", {key: NONE}, is_none)]
            if v.ty == "critarg":
                n, c = var("n"), var("c")
                return v.term, [("ANone", {key: NONE}, is_none), (f"AName {n}", {key: V(n, "cname")}, not is_none),
                                (f"AObj {c}", {key: V(c, "crit")}, not is_none)]
            fail(e, f"config: `is None` test of a value of type {v.ty}")
        if isinstance(e, ast.Call) and not e.keywords and len(e.args) == 2:
            f = ast.unparse(e.func)
            if f == "isinstance" and isinstance(e.args[0], ast.Name) and ast.unparse(e.args[1]) in ("MergeAcceptFunction", "str"):
                want = {"MergeAcceptFunction": "crit", "str": "cname"}[ast.unparse(e.args[1])]
                key = e.args[0].id
                v = ev(e.args[0], env)
                if v.ty in ("none", "crit", "cname"):
                    return None, [(None, {}, v.ty == want)]
                if v.ty == "critarg":
                    n, c = var("n"), var("c")
                    return v.term, [("ANone", {key: NONE}, False), (f"AName {n}", {key: V(n, "cname")}, want == "cname"),
                                    (f"AObj {c}", {key: V(c, "crit")}, want == "crit")]
                fail(e, f"config: isinstance test of a value of type {v.ty}")
            if f == "hasattr" and isinstance(e.args[1], ast.Constant) and e.args[1].value == "tolerance":
                o = ev(e.args[0], env)
                if o.ty != "crit":
                    fail(e, "config: hasattr(…, 'tolerance') of something that is not a merge function")
                h = env.get(HAS)
                if h is not None and h[0] == o.term:
                    return None, [(None, {}, h[1] is not None)]
                x = var("h")
                return f"crit_tolerance {o.term}", [(f"Some {x}", {HAS: (o.term, x)}, True),
                                                    ("None", {HAS: (o.term, None)}, False)]
        fail(e, "config: condition outside the recognised shapes")

    def gmaf_call(e):
        return (isinstance(e, ast.Call) and ast.unparse(e.func) == "get_merge_accept_fn")

    def desugar(st):
        """x = A if C else B  ->  if C: x = A else: x = B   (so that the test refines what follows)"""
        if isinstance(st, ast.Assign) and isinstance(st.value, ast.IfExp):
            mk = lambda v: ast.copy_location(ast.Assign(targets=st.targets, value=v, lineno=st.lineno), st)
            return ast.copy_location(ast.If(test=st.value.test, body=[mk(st.value.body)], orelse=[mk(st.value.orelse)]), st)
        return st

    def assign(st, env):
        """a non-raising assignment -> (new env, assigned keys)"""
        if len(st.targets) != 1:
            fail(st, "config: multiple assignment targets")
        tgt = st.targets[0]
        key = ast.unparse(tgt)
        new = dict(env)
        if isinstance(tgt, ast.Name):
            if key in RESERVED or key.startswith("$"):
                fail(st, "config: assignment to a global / reserved name")
            new[key] = ev(st.value, env)
            return new, {key}
        if key in FIELD_TY:
            v = ev(st.value, env)
            if v.ty != FIELD_TY[key]:
                fail(st, f"config: {key} assigned a value of type {v.ty}, expected {FIELD_TY[key]}")
            new[key] = v
            new[DIRTY] = True
            if key == FN:
                new.pop(STOL, None), new.pop(HAS, None)
            return new, {key, DIRTY} | ({STOL, HAS} if key == FN else set())
        if key == FN + ".tolerance":
            # in-place update of the merge function: only when it is known to have the attribute (else python
            # would create it) and with a float
            fnv, v, h = field(FN, env, st), ev(st.value, env), env.get(HAS)
            if not (h is not None and h[0] == fnv.term and h[1] is not None):
                fail(st, "config: tolerance of the merge function set without a hasattr guard")
            if v.ty != "f64":
                fail(st, f"config: tolerance of the merge function set to a value of type {v.ty}")
            new[FN] = V(f"(crit_set_tolerance {fnv.term} {v.term})", "crit")
            new[DIRTY] = True
            new.pop(STOL, None), new.pop(HAS, None)
            return new, {FN, DIRTY, STOL, HAS}
        fail(st, "config: assignment target outside the recognised shapes")

    def run_pure(stmts, env):
        """straight-line assignments and mergeable ifs -> (env, assigned keys); NoMerge otherwise"""
        done = set()
        for st in stmts:
            st = desugar(st)
            if isinstance(st, ast.Pass):
                continue
            if isinstance(st, ast.Assign) and not gmaf_call(st.value):
                env, ks = assign(st, env)
            elif isinstance(st, ast.If):
                env, ks = merge_if(st, env)
            else:
                raise NoMerge()
            done |= ks
        return env, done

    def merge_if(st, env):
        scrut, cases = cond(st.test, env)
        if scrut is None:            # decided statically (no refinements)
            return run_pure(st.body if cases[0][2] else st.orelse, env)
        outs = [run_pure(st.body if truth else st.orelse, {**env, **ref}) for _, ref, truth in cases]
        done = set().union(*(ks for _, ks in outs))
        new = dict(env)
        for k in sorted(done):
            if k == DIRTY:
                new[k] = any(o.get(DIRTY, False) for o, _ in outs)
            elif k in (STOL, HAS):
                new.pop(k, None)
            else:
                if any(k not in o for o, _ in outs):
                    fail(st, f"config: {k} is bound on some paths only")
                vals = [o[k] for o, _ in outs]
                ty = join(vals, st)
                new[k] = V(match(scrut, [(c[0], lift(v, ty, st)) for c, v in zip(cases, vals)]), ty)
        return new, done

    def block(stmts, env, mode, k):
        """the result (a Gallina term) of running stmts in env and then the continuation k(env);
        mode: 'ctor' (a raise after assignments to self is fine: no object), 'update' (it is not), 'getter'"""
        if not stmts:
            return k(env)
        st, tl = desugar(stmts[0]), stmts[1:]
        if isinstance(st, ast.Pass):
            return block(tl, env, mode, k)
        if isinstance(st, ast.Raise):
            e = st.exc
            if not (isinstance(e, ast.Call) and ast.unparse(e.func) == "ValueError" and st.cause is None):
                fail(st, "config: raise of something else than ValueError(...)")
            if mode == "getter":
                fail(st, "config: raise in a getter")
            if mode == "update" and env.get(DIRTY):
                fail(st, "config: set_merge raises after it has already assigned to self (partial update)")
            return "None"
        if isinstance(st, ast.Return):
            if mode != "getter" or st.value is None:
                fail(st, "config: return")
            return lift(ev(st.value, env), "optf", st)
        if isinstance(st, ast.Assign) and gmaf_call(st.value):
            c = st.value
            if ast.unparse(st.targets[0]) != FN or len(st.targets) != 1 or c.keywords or len(c.args) != 2:
                fail(st, "config: get_merge_accept_fn(...) is not called as self._merge_accept_fn = get_merge_accept_fn(name, tol)")
            if mode == "getter" or (mode == "update" and env.get(DIRTY)):
                fail(st, "config: get_merge_accept_fn may raise after self has already been assigned (partial update)")
            a0, a1 = ev(c.args[0], env), ev(c.args[1], env)
            if (a0.ty, a1.ty) != ("cname", "f64"):
                fail(st, f"config: get_merge_accept_fn called with ({a0.ty}, {a1.ty}), expected (str, float)")
            x = var("c")
            new = {kk: v for kk, v in env.items() if kk not in (STOL, HAS)}
            new[FN], new[DIRTY] = V(x, "crit"), True
            return match(f"get_merge_accept_fn fexp {a0.term} {a1.term}",
                         [(f"Some {x}", block(tl, new, mode, k)), ("None", "None")])
        if isinstance(st, ast.Assign):
            if mode == "getter" and not isinstance(st.targets[0], ast.Name):
                fail(st, "config: a getter assigns to self")
            env2, _ = assign(st, env)
            return block(tl, env2, mode, k)
        if isinstance(st, ast.If):
            try:
                env2, _ = merge_if(st, env)
                if mode == "getter" and env2.get(DIRTY):
                    fail(st, "config: a getter assigns to self")
                return block(tl, env2, mode, k)
            except NoMerge:
                pass
            scrut, cases = cond(st.test, env)
            if scrut is None:
                return block((st.body if cases[0][2] else st.orelse) + tl, {**env, **cases[0][1]}, mode, k)
            return match(scrut, [(p, block((st.body if truth else st.orelse) + tl, {**env, **ref}, mode, k))
                                 for p, ref, truth in cases])
        fail(st, "config: statement outside the recognised shapes")

    def body_of(fn):
        b = list(fn.body)
        if b and isinstance(b[0], ast.Expr) and isinstance(b[0].value, ast.Constant) and isinstance(b[0].value.value, str):
            b = b[1:]
        return b

    def finish(env):
        for key in FIELD_TY:
            if key not in env or env[key].ty != FIELD_TY[key]:
                raise Unsupported(f"config: {key} is not assigned on every path that returns")
        return f"Some (mkCfg {env[FN].term} {env[THR].term} {env[BF].term})"

    # ---- tolerance getter ----
    getter = method("tolerance", ["property"])
    signature(getter, {"self": None}, {})
    get_t = block(body_of(getter), {FN: V("fn", "crit")}, "getter", lambda env: "None")

    # ---- __init__ ----
    init = method("__init__", [])
    signature(init, {"self": None},
              {"threshold": "float", "branching_factor": "int",
               "merge_criterion": "str | MergeAcceptFunction | None", "tolerance": "float | None"})
    SKIP = ["self._num_fitted_fps = 0", "self._root: _BFNode | None = None",
            "self._dummy_leaf = _BFNode(branching_factor=2, n_features=0)",
            "self._global_clustering_centroid_labels: NDArray[np.int64] | None = None",
            "self._n_global_clusters = 0", "_BITBIRCH_INSTANCES.add(self)"]
    ib = body_of(init)
    rest = [ast.unparse(s) for s in ib[-len(SKIP):]]
    if rest != SKIP:
        raise Unsupported(f"__init__: the statements after the configuration part are {rest}, expected {SKIP}")
    env0 = {"_global_merge_accept": V("g", "optcrit"), "threshold": V("thr", "f64"), "branching_factor": V("bf", "int"),
            "merge_criterion": V("a", "critarg"), "tolerance": V("tol", "optf")}
    ctor_t = block(ib[:-len(SKIP)], env0, "ctor", finish)

    # ---- set_merge ----
    sm = method("set_merge", [])
    dfl = signature(sm, {"self": None, "criterion": "str | MergeAcceptFunction | None"},
                    {"tolerance": "float | None", "threshold": "float | None", "branching_factor": "int | None"})
    SM_PARAMS = ["criterion", "tolerance", "threshold", "branching_factor"]
    if dfl != {p: "None" for p in SM_PARAMS}:
        raise Unsupported(f"set_merge: defaults {dfl} are not all None")
    env1 = {"_global_merge_accept": V("g", "optcrit"), "criterion": V("a", "critarg"), "tolerance": V("tol", "optf"),
            "threshold": V("thr", "optf"), "branching_factor": V("bf", "optint"),
            FN: V("(c_crit cf)", "crit"), THR: V("(c_thr cf)", "f64"), BF: V("(c_bf cf)", "int")}
    sm_t = block(body_of(sm), env1, "update", finish)

    # ---- property setters: exactly self.set_merge(<param>=value) ----
    def setter(name, ann, vterm):
        fn = method(name, [f"{name}.setter"])
        signature(fn, {"self": None, "value": ann}, {})
        b = body_of(fn)
        if not (len(b) == 1 and isinstance(b[0], ast.Expr) and isinstance(b[0].value, ast.Call)
                and ast.unparse(b[0].value.func) == "self.set_merge"):
            raise Unsupported(f"{name}.setter: body is not a single call of self.set_merge")
        c = b[0].value
        given = dict(zip(["criterion"], c.args)) if len(c.args) <= 1 else fail(c, "setter: positional arguments")
        for kw in c.keywords:
            if kw.arg not in SM_PARAMS or kw.arg in given:
                fail(c, "setter: keyword argument")
            given[kw.arg] = kw.value
        out = []
        for p in SM_PARAMS:
            if p not in given:
                out.append("ANone" if p == "criterion" else "None")      # the default, checked to be None above
            elif ast.unparse(given[p]) == "value" and (p, ann) in (("criterion", "str"), ("tolerance", "float")):
                out.append(vterm)
            else:
                fail(c, f"setter: argument {p}")
        return "set_merge fexp g cf " + " ".join(out)
    crit_setter = setter("merge_criterion", "str", "(AName n)")
    tol_setter = setter("tolerance", "float", "(Some t)")

    hdr = ("(* GENERATED by /verif/translator/py2coq.py from bblean/bitbirch.py (BitBirch.__init__, set_merge, "
           "merge_criterion/tolerance setters, tolerance getter) — do not edit. *)\n"
           "From BB Require Import Model.Config.\nOpen Scope Z_scope.\n")
    return (hdr
            + "\n(* BitBirch.tolerance (getter), as a function of self._merge_accept_fn *)\n"
            + f"Definition tolerance_of (fn : crit) : option float :=\n  {get_t}.\n"
            + "Definition get_tolerance (cf : config) : option float := tolerance_of (c_crit cf).\n"
            + "\n(* BitBirch.__init__; None = ValueError *)\n"
            + "Definition ctor (fexp : float -> float) (g : option crit) (thr : float) (bf : Z) (a : critarg) "
              "(tol : option float) : option config :=\n" + ctor_t + ".\n"
            + "\n(* BitBirch.set_merge; None = ValueError raised before anything was assigned *)\n"
            + "Definition set_merge (fexp : float -> float) (g : option crit) (cf : config) (a : critarg) "
              "(tol thr : option float) (bf : option Z) : option config :=\n" + sm_t + ".\n"
            + "\n(* property setters *)\n"
            + f"Definition set_criterion_prop (fexp : float -> float) (g : option crit) (cf : config) (n : cname) :=\n  {crit_setter}.\n"
            + f"Definition set_tolerance_prop (fexp : float -> float) (g : option crit) (cf : config) (t : float) :=\n  {tol_setter}.\n")


def gen_fit_plan():
    """BitBirch.fit / BitBirch._fit_buffers (bblean/bitbirch.py): the skeleton of the two insertion loops
    as data in the vocabulary of Model/FitPlan.v — the pre-loop statements in program order (manager
    construction, n_features, the released-tree guard, the initialisation), the attributes of self read
    once into locals, where the per-row label / index list comes from, and the statements of the loop body
    in program order (fit_step).  Every statement of the two functions must have one of the shapes below,
    with its operands resolved through the names bound by the recognised statements (so the name of a
    local is free, what it is bound to is not); anything else is a failed translation."""
    tree = ast.parse((REPO / "bblean/bitbirch.py").read_text())
    cls = find_func(tree, "BitBirch")
    # self.num_fitted_fps is the property returning self._num_fitted_fps
    prop = find_func(tree, "BitBirch.num_fitted_fps")
    pbody = [s for s in prop.body if not (isinstance(s, ast.Expr) and isinstance(s.value, ast.Constant))]
    if ([ast.unparse(d) for d in prop.decorator_list] != ["property"] or len(pbody) != 1
            or ast.unparse(pbody[0]) != "return self._num_fitted_fps"):
        raise Unsupported("BitBirch.num_fitted_fps is not the property returning self._num_fitted_fps")
    if sum(1 for n in cls.body if isinstance(n, ast.FunctionDef) and n.name in ("fit", "_fit_buffers")) != 2:
        raise Unsupported("BitBirch: fit / _fit_buffers defined more than once")
    NFIT = ("self.num_fitted_fps", "self._num_fitted_fps")
    ATTRS = {"self.threshold": "BThreshold", "self.branching_factor": "BBranchingFactor",
             "self._merge_accept_fn": "BMergeAcceptFn"}
    cb = lambda b: "true" if b else "false"

    def is_name(e, name=None):
        return isinstance(e, ast.Name) and (name is None or e.id == name)

    def kw_of(call, want, optional=()):
        got = {k.arg: k.value for k in call.keywords}
        if call.args or None in got or not (set(want) <= set(got) <= set(want) | set(optional)):
            fail(call, f"arguments (expected keywords {sorted(want)})")
        return got

    def analyse(qual, buffers):
        fn = find_func(tree, qual)
        a = fn.args
        params = [x.arg for x in a.posonlyargs + a.args]
        if a.vararg or a.kwarg or a.kwonlyargs or params[:2] != ["self", "X"]:
            raise Unsupported(f"{qual}: parameters {params}")
        body = list(fn.body)
        loops = [i for i, st in enumerate(body) if isinstance(st, ast.For)]
        if len(loops) != 1:
            raise Unsupported(f"{qual}: expected exactly one top-level loop")
        pre, loop, post = body[:loops[0]], body[loops[0]], body[loops[0] + 1:]
        if [ast.unparse(s) for s in post] != ["return self"]:
            raise Unsupported(f"{qual}: statements after the loop other than `return self`")
        # names bound by the recognised statements: name -> what it denotes
        env = {}
        P = params[2] if len(params) > 2 else None       # reinsert_indices / reinsert_index_seqs
        want_p = "reinsert_index_seqs" if buffers else "reinsert_indices"
        if P != want_p:
            raise Unsupported(f"{qual}: the second parameter is {P}, expected {want_p}")
        for p in params[1:]:
            env[p] = ("param", p)

        def bind(st, name, what):
            if name in env and env[name] != what:
                fail(st, f"{qual}: re-binding of {name}")
            env[name] = what

        def den(e):
            """what a name denotes (None if not a bound name)"""
            return env.get(e.id) if isinstance(e, ast.Name) else None

        pre_out, binds, source, arr_idx_at = [], [], None, None

        def mm_branch(stmts, is_path):
            """X re-bindings followed by `mmanager = _ArrayMemPagesManager.from_bb_input(X[, can_release=b])`"""
            ctor, mname = None, None
            for st in stmts:
                s = ast.unparse(st)
                if ctor is None and is_path and s in ("X = _mmap_file_and_madvise_sequential(Path(X), max_fps=max_fps)",
                                                      "X = _mmap_file_and_madvise_sequential(Path(X))"):
                    continue
                if ctor is None and not is_path and s == "X = X[:max_fps]":
                    continue
                if (ctor is None and isinstance(st, ast.Assign) and len(st.targets) == 1 and is_name(st.targets[0])
                        and isinstance(st.value, ast.Call)
                        and ast.unparse(st.value.func) == "_ArrayMemPagesManager.from_bb_input"
                        and len(st.value.args) == 1 and is_name(st.value.args[0], "X")):
                    kws = {k.arg: k.value for k in st.value.keywords}
                    if not kws:
                        ctor = "MMDefault"
                    elif (set(kws) == {"can_release"} and isinstance(kws["can_release"], ast.Constant)
                          and isinstance(kws["can_release"].value, bool)):
                        ctor = f"(MMCanRelease {cb(kws['can_release'].value)})"
                    else:
                        fail(st, f"{qual}: manager construction")
                    mname = st.targets[0].id
                    continue
                fail(st, f"{qual}: statement in the input-kind branches outside the recognised shapes")
            if ctor is None:
                fail(stmts[0] if stmts else fn, f"{qual}: a branch does not construct the manager")
            return ctor, mname

        def src_branch(stmts):
            """fit: `iterable = enumerate(arr_iterable, self.num_fitted_fps)` | `iterable = zip(P, arr_iterable)`
            _fit_buffers: `idx_provider = (() for _ in range(self.num_fitted_fps)); check = False` |
                          `idx_provider = P; check = True`.  Returns (constructor, {name: denotation})"""
            out, names, check = None, {}, None
            for st in stmts:
                if not (isinstance(st, ast.Assign) and len(st.targets) == 1 and is_name(st.targets[0])):
                    fail(st, f"{qual}: statement in the label-source branches")
                t, v = st.targets[0].id, st.value
                if buffers and isinstance(v, ast.Constant) and isinstance(v.value, bool) and check is None:
                    check = v.value
                    names[t] = ("check",)
                    continue
                if out is not None:
                    fail(st, f"{qual}: second source in one branch")
                if not buffers:
                    if (isinstance(v, ast.Call) and is_name(v.func, "enumerate") and not v.keywords and len(v.args) == 2
                            and den(v.args[0]) == ("rows",) and ast.unparse(v.args[1]) in NFIT):
                        out = "LDefaultFromNfit"
                    elif (isinstance(v, ast.Call) and is_name(v.func, "zip") and not v.keywords and len(v.args) == 2
                          and den(v.args[0]) == ("param", P) and den(v.args[1]) == ("rows",)):
                        out = "LCaller"
                    else:
                        fail(st, f"{qual}: label source")
                    names[t] = ("pairs",)
                else:
                    if den(v) == ("param", P):
                        out = "ICallerSeqs"
                    elif (isinstance(v, ast.GeneratorExp) and ast.unparse(v.elt) == "()" and len(v.generators) == 1
                          and not v.generators[0].ifs and not v.generators[0].is_async
                          and is_name(v.generators[0].target)
                          and ast.unparse(v.generators[0].iter) in [f"range({n})" for n in NFIT]):
                        out = "IEmptyPerFitted"
                    else:
                        fail(st, f"{qual}: index source")
                    names[t] = ("idxseqs",)
            if out is None or (buffers and check is None):
                fail(stmts[0] if stmts else fn, f"{qual}: a branch does not bind the source")
            return (f"{out} {cb(check)}" if buffers else out), names

        for st in pre:
            s = ast.unparse(st)
            if isinstance(st, ast.Expr) and isinstance(st.value, ast.Constant) and isinstance(st.value.value, str):
                continue                                            # docstring
            if isinstance(st, ast.AnnAssign) and st.value is None and is_name(st.target) and st.simple:
                continue                                            # annotation only
            if arr_idx_at is not None and not (isinstance(st, ast.If) and source is None):
                fail(st, f"{qual}: statement between `arr_idx = 0` and the loop")
            if isinstance(st, ast.If) and s.startswith("if isinstance(X, (Path, str)):"):
                if pre_out:
                    fail(st, f"{qual}: the manager is not constructed first")
                (c1, m1), (c2, m2) = mm_branch(st.body, True), mm_branch(st.orelse, False)
                if m1 != m2:
                    fail(st, f"{qual}: the two branches bind different managers")
                bind(st, m1, ("mm",))
                pre_out.append(f"PManager {c1} {c2}")
                continue
            if (isinstance(st, ast.Assign) and len(st.targets) == 1 and is_name(st.targets[0])
                    and s in (f"{st.targets[0].id} = _validate_n_features(X, input_is_packed, n_features)",
                              f"{st.targets[0].id} = _validate_n_features(X, input_is_packed=False) - 1")):
                minus = isinstance(st.value, ast.BinOp)
                if minus != buffers or any(p.startswith("PNFeatures") for p in pre_out):
                    fail(st, f"{qual}: n_features")
                env.pop(st.targets[0].id, None)                      # fit re-binds its own parameter
                bind(st, st.targets[0].id, ("nf",))
                pre_out.append(f"PNFeatures {cb(minus)}")
                continue
            if isinstance(st, ast.If) and ast.unparse(st.test) == "self._only_has_leaves":
                if (st.orelse or len(st.body) != 1 or not isinstance(st.body[0], ast.Raise)
                        or not isinstance(st.body[0].exc, ast.Call) or ast.unparse(st.body[0].exc.func) != "ValueError"):
                    fail(st, f"{qual}: the released-tree guard does not just raise ValueError")
                pre_out.append("PRaiseIfOnlyLeaves")
                continue
            if isinstance(st, ast.If) and ast.unparse(st.test) == "not self.is_init":
                c = st.body[0].value if len(st.body) == 1 and isinstance(st.body[0], ast.Expr) else None
                if (st.orelse or not isinstance(c, ast.Call) or ast.unparse(c.func) != "self._initialize_tree"
                        or c.keywords or len(c.args) != 1 or den(c.args[0]) != ("nf",)):
                    fail(st, f"{qual}: initialisation is not self._initialize_tree(n_features)")
                pre_out.append("PInitIfNotInit")
                continue
            if (isinstance(st, ast.Assign) and len(st.targets) == 1 and isinstance(st.value, ast.Call)
                    and is_name(st.value.func, "cast") and len(st.value.args) == 2 and not st.value.keywords
                    and ast.unparse(st.targets[0]) == ast.unparse(st.value.args[1])
                    and ast.unparse(st.targets[0]) in ("self._root",) + tuple(k for k, v in env.items() if v == ("rows",))):
                continue                                            # cast(...) re-binding: no effect
            if (isinstance(st, ast.Assign) and len(st.targets) == 1 and is_name(st.targets[0])
                    and isinstance(st.value, ast.Call) and is_name(st.value.func, "_get_array_iterable")
                    and st.value.args and is_name(st.value.args[0], "X")):
                if ("rows",) in env.values():
                    fail(st, f"{qual}: the rows are obtained twice")
                bind(st, st.targets[0].id, ("rows",))
                continue
            if (isinstance(st, ast.Assign) and len(st.targets) == 1 and is_name(st.targets[0])
                    and ast.unparse(st.value) in ATTRS):
                b = ATTRS[ast.unparse(st.value)]
                if b in binds:
                    fail(st, f"{qual}: attribute read twice")
                binds.append(b)
                bind(st, st.targets[0].id, ("local", b))
                continue
            if (isinstance(st, ast.Assign) and len(st.targets) == 1 and is_name(st.targets[0])
                    and isinstance(st.value, ast.Constant) and st.value.value == 0
                    and type(st.value.value) is int):
                if arr_idx_at is not None:
                    fail(st, f"{qual}: second counter")
                arr_idx_at = st
                bind(st, st.targets[0].id, ("arr_idx",))
                continue
            if isinstance(st, ast.If) and source is None:
                t = st.test
                if not (isinstance(t, ast.Compare) and len(t.ops) == 1 and den(t.left) == ("param", P)):
                    fail(st, f"{qual}: pre-loop test outside the recognised shapes")
                rhs, op = t.comparators[0], t.ops[0]
                if not buffers and isinstance(rhs, ast.Constant) and rhs.value is None and isinstance(op, (ast.Is, ast.IsNot)):
                    pos = isinstance(op, ast.Is)
                elif buffers and isinstance(rhs, ast.Constant) and rhs.value == "omit" and isinstance(op, (ast.Eq, ast.NotEq)):
                    pos = isinstance(op, ast.Eq)
                else:
                    fail(st, f"{qual}: test selecting the label source")
                (a_, n1), (b_, n2) = src_branch(st.body), src_branch(st.orelse)
                if n1 != n2:
                    fail(st, f"{qual}: the two branches bind different names")
                for k, v in n1.items():
                    bind(st, k, v)
                source = (a_, b_) if pos else (b_, a_)
                continue
            fail(st, f"{qual}: pre-loop statement outside the recognised shapes")

        if source is None or arr_idx_at is None or sorted(binds) != sorted(ATTRS.values()):
            raise Unsupported(f"{qual}: label source / `arr_idx = 0` / the three attribute reads missing before the loop")
        if not buffers and pre[-1] is not arr_idx_at:
            fail(pre[-1], f"{qual}: `arr_idx = 0` is not the statement right before the loop")
        for need in ("PManager", "PNFeatures", "PRaiseIfOnlyLeaves", "PInitIfNotInit"):
            if sum(1 for p in pre_out if p.startswith(need)) != 1:
                raise Unsupported(f"{qual}: {need} does not occur exactly once before the loop")

        # ---- loop header
        if loop.orelse or not (isinstance(loop.target, ast.Tuple) and len(loop.target.elts) == 2
                               and all(is_name(e) for e in loop.target.elts)):
            fail(loop, f"{qual}: loop shape")
        v_lab, v_row = (e.id for e in loop.target.elts)
        if v_lab in env or v_row in env or v_lab == v_row:
            fail(loop, f"{qual}: loop variables shadow a bound name")
        it = loop.iter
        if not buffers:
            if den(it) != ("pairs",):
                fail(loop, f"{qual}: the loop is not over the (label, row) pairs")
        else:
            if not (isinstance(it, ast.Call) and is_name(it.func, "zip") and not it.keywords and len(it.args) == 2
                    and den(it.args[0]) == ("idxseqs",) and den(it.args[1]) == ("rows",)):
                fail(loop, f"{qual}: the loop is not over zip(index sequences, rows)")
        env[v_lab], env[v_row] = ("label",), ("row",)

        # ---- loop body
        def split_block(stmts):
            out = []
            for st in stmts:
                if (isinstance(st, ast.Assign) and len(st.targets) == 1 and isinstance(st.targets[0], ast.Tuple)
                        and len(st.targets[0].elts) == 2 and all(is_name(e) for e in st.targets[0].elts)
                        and ast.unparse(st.value) == "_split_node(self._root)"):
                    n1, n2 = (e.id for e in st.targets[0].elts)
                    if n1 == n2:
                        fail(st, f"{qual}: split targets")
                    bind(st, n1, ("new", 1))
                    bind(st, n2, ("new", 2))
                    out.append("SSplitRoot")
                elif (isinstance(st, ast.Assign) and len(st.targets) == 1 and ast.unparse(st.targets[0]) == "self._root"
                      and isinstance(st.value, ast.Call) and is_name(st.value.func, "_BFNode")
                      and not st.value.keywords and len(st.value.args) == 2
                      and den(st.value.args[0]) == ("local", "BBranchingFactor") and den(st.value.args[1]) == ("nf",)):
                    out.append("SNewRoot")
                elif (isinstance(st, ast.Expr) and isinstance(st.value, ast.Call)
                      and ast.unparse(st.value.func) == "self._root.append_subcluster" and not st.value.keywords
                      and len(st.value.args) == 1 and den(st.value.args[0]) in (("new", 1), ("new", 2))):
                    out.append(f"SAppend{den(st.value.args[0])[1]}")
                else:
                    fail(st, f"{qual}: statement in the `if split:` block outside the recognised shapes")
            return out

        steps = []
        for st in loop.body:
            if (isinstance(st, ast.Assign) and len(st.targets) == 1 and is_name(st.targets[0])
                    and isinstance(st.value, ast.Call) and is_name(st.value.func, "_BFSubcluster")):
                if not buffers:
                    kw = kw_of(st.value, ["linear_sum", "mol_indices", "n_features"])
                    mi = kw["mol_indices"]
                    if not (den(kw["linear_sum"]) == ("row",) and isinstance(mi, ast.List) and len(mi.elts) == 1
                            and den(mi.elts[0]) == ("label",) and den(kw["n_features"]) == ("nf",)):
                        fail(st, f"{qual}: sub-cluster is not _BFSubcluster(linear_sum=row, mol_indices=[label], n_features=n_features)")
                    steps.append("SNewSingleton")
                else:
                    kw = kw_of(st.value, ["buffer", "mol_indices", "n_features", "check_indices"])
                    if not (den(kw["buffer"]) == ("row",) and den(kw["mol_indices"]) == ("label",)
                            and den(kw["n_features"]) == ("nf",) and den(kw["check_indices"]) == ("check",)):
                        fail(st, f"{qual}: sub-cluster is not _BFSubcluster(buffer=row, mol_indices=idxs, n_features=n_features, check_indices=check)")
                    steps.append("SNewFromBuffer")
                bind(st, st.targets[0].id, ("sub",))
            elif (isinstance(st, ast.Assign) and len(st.targets) == 1 and is_name(st.targets[0])
                  and isinstance(st.value, ast.Call) and ast.unparse(st.value.func) == "self._root.insert_bf_subcluster"):
                c = st.value
                if not (not c.keywords and len(c.args) == 3 and den(c.args[0]) == ("sub",)
                        and den(c.args[1]) == ("local", "BMergeAcceptFn") and den(c.args[2]) == ("local", "BThreshold")):
                    fail(st, f"{qual}: insertion is not self._root.insert_bf_subcluster(subcluster, merge_accept_fn, threshold)")
                bind(st, st.targets[0].id, ("split",))
                steps.append("SInsertRoot")
            elif isinstance(st, ast.If) and den(st.test) == ("split",):
                if st.orelse:
                    fail(st, f"{qual}: `if split:` with an else branch")
                steps.append("SIfSplit [" + "; ".join(split_block(st.body)) + "]")
            elif (isinstance(st, ast.AugAssign) and isinstance(st.op, ast.Add)
                  and ast.unparse(st.target) == "self._num_fitted_fps"):
                v = st.value
                if isinstance(v, ast.Constant) and type(v.value) is int and v.value == 1:
                    steps.append("SCountOne")
                elif (buffers and isinstance(v, ast.Call) and is_name(v.func, "len") and not v.keywords
                      and len(v.args) == 1 and den(v.args[0]) == ("label",)):
                    steps.append("SCountMembers")
                else:
                    fail(st, f"{qual}: count increment")
            elif (isinstance(st, ast.AugAssign) and isinstance(st.op, ast.Add) and den(st.target) == ("arr_idx",)
                  and isinstance(st.value, ast.Constant) and type(st.value.value) is int and st.value.value == 1):
                steps.append("SArrIdxInc")
            elif isinstance(st, ast.If) and any(den(n) == ("mm",) for n in ast.walk(st.test)):
                t = st.test
                ok = (isinstance(t, ast.BoolOp) and isinstance(t.op, ast.And) and len(t.values) == 2
                      and isinstance(t.values[0], ast.Attribute) and t.values[0].attr == "can_release"
                      and den(t.values[0].value) == ("mm",)
                      and isinstance(t.values[1], ast.Call) and isinstance(t.values[1].func, ast.Attribute)
                      and t.values[1].func.attr == "should_release_curr_page" and den(t.values[1].func.value) == ("mm",)
                      and not t.values[1].keywords and len(t.values[1].args) == 1
                      and den(t.values[1].args[0]) == ("arr_idx",)
                      and not st.orelse and len(st.body) == 1 and isinstance(st.body[0], ast.Expr)
                      and isinstance(st.body[0].value, ast.Call) and isinstance(st.body[0].value.func, ast.Attribute)
                      and st.body[0].value.func.attr == "release_curr_page_and_update_addr"
                      and den(st.body[0].value.func.value) == ("mm",)
                      and not st.body[0].value.args and not st.body[0].value.keywords)
                if not ok:
                    fail(st, f"{qual}: release check is not `if mm.can_release and mm.should_release_curr_page(arr_idx): "
                             "mm.release_curr_page_and_update_addr()`")
                steps.append("SReleaseCheck")
            else:
                fail(st, f"{qual}: loop-body statement outside the recognised shapes")
        return pre_out, sorted(binds), source, steps

    pre_f, binds_f, src_f, steps_f = analyse("BitBirch.fit", False)
    pre_b, binds_b, src_b, steps_b = analyse("BitBirch._fit_buffers", True)
    lst = lambda xs: "[" + "; ".join(xs) + "]"
    hdr = ("(* GENERATED by /verif/translator/py2coq.py from bblean/bitbirch.py (BitBirch.fit, "
           "BitBirch._fit_buffers) — do not edit. *)\nFrom BB Require Import Model.FitPlan.\n"
           "Open Scope Z_scope.\n")
    return (hdr
            + "\n(* BitBirch.fit *)\n"
            + f"Definition fit_pre_loop : list pre_step :=\n  {lst(pre_f)}.\n"
            + f"Definition fit_locals_read_once : list local_bind := {lst(binds_f)}.\n"
            + "Definition fit_label_source (reinsert_indices_is_none : bool) : label_source :=\n"
            + f"  if reinsert_indices_is_none then {src_f[0]} else {src_f[1]}.\n"
            + "Definition fit_arr_idx_init : Z := 0.\n"
            + f"Definition fit_loop_body : list fit_step :=\n  {lst(steps_f)}.\n"
            + "\n(* BitBirch._fit_buffers *)\n"
            + f"Definition fit_buffers_pre_loop : list pre_step :=\n  {lst(pre_b)}.\n"
            + f"Definition fit_buffers_locals_read_once : list local_bind := {lst(binds_b)}.\n"
            + "Definition fit_buffers_index_source (reinsert_index_seqs_is_omit : bool) : index_source :=\n"
            + f"  if reinsert_index_seqs_is_omit then {src_b[0]} else {src_b[1]}.\n"
            + "Definition fit_buffers_pairing : pairing := ZipIndexSeqsRows.\n"
            + "Definition fit_buffers_arr_idx_init : Z := 0.\n"
            + f"Definition fit_buffers_loop_body : list fit_step :=\n  {lst(steps_b)}.\n")


def gen_tree_plan():
    """The node operations of the CF-tree (bblean/bitbirch.py): _BFSubcluster.update /
    add_to_n_samples_and_linear_sum / replace_n_samples_and_linear_sum / merge_subcluster,
    _BFNode.append_subcluster / update_split_subclusters / insert_bf_subcluster and _split_node, as data in
    the vocabulary of Model/TreePlan.v: the statements of each body in program order.  Every statement must
    have one of the shapes below after its local names have been replaced by what the recognised statements
    bound them to (so the name of a local or of a parameter is free, what it denotes is not); parameters
    denote by POSITION; anything else is a failed translation."""
    import copy
    import re
    tree = ast.parse((REPO / "bblean/bitbirch.py").read_text())
    CMP = {ast.Gt: "CGt", ast.GtE: "CGe", ast.Lt: "CLt", ast.LtE: "CLe", ast.Eq: "CEq", ast.NotEq: "CNe"}
    lst = lambda xs: "[" + "; ".join(xs) + "]"

    def canon(node, env):
        """source text of node with every bound local replaced by §<denotation>"""
        class T(ast.NodeTransformer):
            def visit_Name(self, n):
                return ast.copy_location(ast.Name(id="§" + env[n.id], ctx=n.ctx), n) if n.id in env else n
        return ast.unparse(T().visit(copy.deepcopy(node)))

    def stmts_of(qual, nparams):
        """(parameter names, statements without the docstring) of a plain function defined exactly once"""
        parts = qual.split(".")
        scope = tree.body if len(parts) == 1 else find_func(tree, ".".join(parts[:-1])).body
        defs = [n for n in scope if isinstance(n, (ast.FunctionDef, ast.AsyncFunctionDef)) and n.name == parts[-1]]
        if len(defs) != 1 or not isinstance(defs[0], ast.FunctionDef) or defs[0].decorator_list:
            raise Unsupported(f"{qual}: not a plain function defined exactly once")
        fn, a = defs[0], defs[0].args
        params = [x.arg for x in a.posonlyargs + a.args]
        if a.vararg or a.kwarg or a.kwonlyargs or a.defaults or len(params) != nparams or len(set(params)) != nparams:
            raise Unsupported(f"{qual}: parameters {params}")
        body = list(fn.body)
        if body and isinstance(body[0], ast.Expr) and isinstance(body[0].value, ast.Constant) \
                and isinstance(body[0].value.value, str):
            body = body[1:]
        for n in ast.walk(fn):
            if isinstance(n, (ast.Global, ast.Nonlocal, ast.Lambda, ast.FunctionDef, ast.ClassDef, ast.NamedExpr,
                              ast.Try, ast.With, ast.While, ast.Delete, ast.Yield, ast.YieldFrom, ast.Await)) \
                    and n is not fn:
                fail(n, f"{qual}: construct outside the recognised shapes")
        return params, body

    def check_property(qual, text):
        parts = qual.split(".")
        scope = find_func(tree, parts[0]).body
        defs = [n for n in scope if isinstance(n, ast.FunctionDef) and n.name == parts[1]]
        if len(defs) != 1 or [ast.unparse(d) for d in defs[0].decorator_list] != ["property"]:
            raise Unsupported(f"{qual}: not a read-only property defined once")
        body = [s for s in defs[0].body if not (isinstance(s, ast.Expr) and isinstance(s.value, ast.Constant))]
        if [ast.unparse(s) for s in body] != text:
            raise Unsupported(f"{qual}: the property is not {text}")

    # the properties the shapes below rely on
    check_property("_BFSubcluster.n_samples", ["return self._buffer.item(-1)"])
    check_property("_BFSubcluster.linear_sum", ["read_only_view = self._buffer[:-1]",
                                                "read_only_view.flags.writeable = False", "return read_only_view"])
    check_property("_BFNode.packed_centroids", ["return self._packed_centroids_buf[:len(self._subclusters), :]"])
    check_property("_BFNode.branching_factor", ["return self._packed_centroids_buf.shape[0] - 1"])
    check_property("_BFNode.is_leaf", ["return self._prev_leaf is not None"])

    def binder(qual, env):
        def bind(st, target, what):
            if not isinstance(target, ast.Name) or target.id in env or target.id == "self":
                fail(st, f"{qual}: re-binding / unsupported binding target")
            env[target.id] = what
        return bind

    def single_name_assign(st):
        return isinstance(st, ast.Assign) and len(st.targets) == 1 and isinstance(st.targets[0], ast.Name)

    # ---------------- Stage A: the two buffer mutators ----------------
    def buf_plan(qual):
        params, body = stmts_of(qual, 3)
        if params[0] != "self":
            raise Unsupported(f"{qual}: first parameter is not self")
        env = {params[1]: "PN", params[2]: "PLS"}
        bind = binder(qual, env)
        NS = {"§PN": "NParam", "§NEWN": "NNewN"}
        LS = {"§PLS": "LParam", "self._buffer[:-1]": "LBuffer"}
        out = []
        for st in body:
            if single_name_assign(st):
                if canon(st.value, env) != "self.n_samples + §PN":
                    fail(st, f"{qual}: local binding other than `v = self.n_samples + n_samples`")
                bind(st, st.targets[0], "NEWN")
                out.append("BBindNewN")
                continue
            s = canon(st, env)
            m = re.fullmatch(r"self\._buffer = self\._buffer\.astype\(min_safe_uint\((§\w+)\), copy=False\)", s)
            if m and m.group(1) in NS:
                out.append(f"BCastMinSafe {NS[m.group(1)]}")
                continue
            if isinstance(st, ast.AugAssign) and isinstance(st.op, ast.Add) \
                    and canon(st.target, env) == "self._buffer[:-1]" and canon(st.value, env) in LS:
                out.append(f"BAddInPlace {LS[canon(st.value, env)]}")
                continue
            if isinstance(st, ast.Assign) and len(st.targets) == 1:
                t, v = canon(st.targets[0], env), canon(st.value, env)
                if t == "self._buffer[:-1]" and v in LS:
                    out.append(f"BAssignLs {LS[v]}")
                    continue
                if t == "self._buffer[-1]" and v in NS:
                    out.append(f"BStoreN {NS[v]}")
                    continue
                m = re.fullmatch(r"centroid_from_sum\((.+), (§\w+), pack=True\)", v)
                if t == "self.packed_centroid" and m and m.group(1) in LS and m.group(2) in NS:
                    out.append(f"BCentroid {LS[m.group(1)]} {NS[m.group(2)]}")
                    continue
            fail(st, f"{qual}: statement outside the recognised shapes")
        return out

    # ---------------- Stage A: update ----------------
    ATTR = {"n_samples": "AtNSamples", "linear_sum": "AtLinearSum", "mol_indices": "AtMolIndices"}

    def update_plan():
        qual = "_BFSubcluster.update"
        params, body = stmts_of(qual, 2)
        if params[0] != "self":
            raise Unsupported(f"{qual}: first parameter is not self")
        env = {params[1]: "ARG"}
        out = []
        for st in body:
            s = canon(st, env)
            m = re.fullmatch(r"self\.add_to_n_samples_and_linear_sum\(§ARG\.(\w+), §ARG\.(\w+)\)", s)
            if isinstance(st, ast.Expr) and m and m.group(1) in ATTR and m.group(2) in ATTR:
                out.append(f"UAddTo {ATTR[m.group(1)]} {ATTR[m.group(2)]}")
                continue
            m = re.fullmatch(r"self\.mol_indices\.extend\(§ARG\.(\w+)\)", s)
            if isinstance(st, ast.Expr) and m and m.group(1) in ATTR:
                out.append(f"UExtendIds {ATTR[m.group(1)]}")
                continue
            fail(st, f"{qual}: statement outside the recognised shapes")
        return out

    # ---------------- Stage A: merge_subcluster ----------------
    def merge_plan():
        qual = "_BFSubcluster.merge_subcluster"
        params, body = stmts_of(qual, 4)
        if params[0] != "self":
            raise Unsupported(f"{qual}: first parameter is not self")
        env = {params[1]: "NOM", params[2]: "VThreshold", params[3]: "ACCEPT"}
        bind = binder(qual, env)
        MV = {"§" + v: v for v in ("VOldN", "VNomN", "VNewN", "VOldLs", "VNomLs", "VNewLs", "VThreshold")}
        RHS = {"self.n_samples": ("VOldN", "RSelfN"), "§NOM.n_samples": ("VNomN", "RNomN"),
               "self.linear_sum": ("VOldLs", "RSelfLs"), "§NOM.linear_sum": ("VNomLs", "RNomLs")}

        def ret(st):
            if isinstance(st, ast.Return) and isinstance(st.value, ast.Constant) and isinstance(st.value.value, bool):
                return "true" if st.value.value else "false"
            return None

        def acc_body(stmts):
            out = []
            for st in stmts:
                s = canon(st, env)
                m = re.fullmatch(r"self\.replace_n_samples_and_linear_sum\((§\w+), (§\w+)\)", s)
                if isinstance(st, ast.Expr) and m and m.group(1) in MV and m.group(2) in MV:
                    out.append(f"AReplace {MV[m.group(1)]} {MV[m.group(2)]}")
                elif isinstance(st, ast.Expr) and s == "self.mol_indices.extend(§NOM.mol_indices)":
                    out.append("AExtendIds")
                elif ret(st) is not None:
                    out.append(f"AReturn {ret(st)}")
                else:
                    fail(st, f"{qual}: statement in the accepted branch outside the recognised shapes")
            return out

        out = []
        for st in body:
            if single_name_assign(st):
                v = canon(st.value, env)
                m1 = re.fullmatch(r"(§\w+) \+ (§\w+)", v)
                m2 = re.fullmatch(r"np\.add\((§\w+), (§\w+), dtype=min_safe_uint\((§\w+)\)\)", v)
                if v in RHS:
                    var, rhs = RHS[v]
                elif m1 and all(g in MV for g in m1.groups()):
                    var, rhs = "VNewN", f"(RAddN {MV[m1.group(1)]} {MV[m1.group(2)]})"
                elif m2 and all(g in MV for g in m2.groups()):
                    var, rhs = "VNewLs", f"(RNpAddMinSafe {MV[m2.group(1)]} {MV[m2.group(2)]} {MV[m2.group(3)]})"
                else:
                    fail(st, f"{qual}: local binding outside the recognised shapes")
                if var in env.values():
                    fail(st, f"{qual}: second binding of the same kind")
                bind(st, st.targets[0], var)
                out.append(f"MBind {var} {rhs}")
                continue
            if isinstance(st, ast.If):
                t = st.test
                if (st.orelse or not isinstance(t, ast.Call) or t.keywords or canon(t.func, env) != "§ACCEPT"
                        or not all(canon(a, env) in MV for a in t.args)):
                    fail(st, f"{qual}: test is not a positional call of the accept function on bound locals")
                out.append(f"MIfAccept {lst([MV[canon(a, env)] for a in t.args])} {lst(acc_body(st.body))}")
                continue
            if ret(st) is not None:
                out.append(f"MReturn {ret(st)}")
                continue
            fail(st, f"{qual}: statement outside the recognised shapes")
        return out

    # ---------------- Stage B: append_subcluster / update_split_subclusters ----------------
    def node_plan(qual, penv):
        params, body = stmts_of(qual, 1 + len(penv))
        if params[0] != "self":
            raise Unsupported(f"{qual}: first parameter is not self")
        env = dict(zip(params[1:], penv))
        bind = binder(qual, env)
        ES = {"§EArg": "EArg", "§ENew1": "ENew1", "§ENew2": "ENew2"}
        IS = {"§IOldLen": "IOldLen", "§IIndexOfOld": "IIndexOfOld"}
        out = []
        for st in body:
            if single_name_assign(st):
                v = canon(st.value, env)
                if v == "len(self._subclusters)":
                    bind(st, st.targets[0], "IOldLen")
                    out.append("NBindOldLen")
                elif v == "self._subclusters.index(§OLD)":
                    bind(st, st.targets[0], "IIndexOfOld")
                    out.append("NBindIndexOfOld")
                else:
                    fail(st, f"{qual}: local binding outside the recognised shapes")
                continue
            s = canon(st, env)
            m = re.fullmatch(r"self\._subclusters\.append\((§\w+)\)", s)
            if isinstance(st, ast.Expr) and m and m.group(1) in ES:
                out.append(f"NListAppend {ES[m.group(1)]}")
                continue
            m = re.fullmatch(r"self\.append_subcluster\((§\w+)\)", s)
            if isinstance(st, ast.Expr) and m and m.group(1) in ES:
                out.append(f"NAppendSub {ES[m.group(1)]}")
                continue
            if isinstance(st, ast.Assign) and len(st.targets) == 1:
                m = re.fullmatch(r"self\._subclusters\[(§\w+)\] = (§\w+)", s)
                if m and m.group(1) in IS and m.group(2) in ES:
                    out.append(f"NListSet {IS[m.group(1)]} {ES[m.group(2)]}")
                    continue
                m = re.fullmatch(r"self\._packed_centroids_buf\[(§\w+)\] = (§\w+)\.packed_centroid", s)
                if m and m.group(1) in IS and m.group(2) in ES:
                    out.append(f"NCacheSet {IS[m.group(1)]} {ES[m.group(2)]}")
                    continue
            fail(st, f"{qual}: statement outside the recognised shapes")
        return out

    # ---------------- Stage C: insert_bf_subcluster ----------------
    def insert_plan():
        qual = "_BFNode.insert_bf_subcluster"
        params, body = stmts_of(qual, 4)
        if params[0] != "self":
            raise Unsupported(f"{qual}: first parameter is not self")
        env = {params[1]: "GSub", params[2]: "GAcceptFn", params[3]: "GThreshold"}
        bind = binder(qual, env)
        GA = {"§GSub": "GSub", "§GAcceptFn": "GAcceptFn", "§GThreshold": "GThreshold"}
        BINDS = {"_jt_sim_arr_vec_packed(self.packed_centroids, §GSub.packed_centroid)": ("SIMS", "IBindSims"),
                 "np.argmax(§SIMS)": ("CI", "IBindClosestIdx"),
                 "self._subclusters[§CI]": ("CSUB", "IBindClosestSub"),
                 "§CSUB.child": ("CNODE", "IBindClosestNode")}
        IFS = {"not self._subclusters": "IIfEmpty", "§CNODE is None": "IIfNoChild", "not §MERGED": "IIfNotMerged",
               "§CSPLIT": "IIfChildSplit"}
        ROWS = {"§CSUB.packed_centroid": "RowOfClosestSub",
                "self._subclusters[§CI].packed_centroid": "RowOfEntryAtClosestIdx"}

        def call_args(call, recv, meth):
            if not (isinstance(call, ast.Call) and not call.keywords and isinstance(call.func, ast.Attribute)
                    and call.func.attr == meth and canon(call.func.value, env) == recv
                    and all(canon(a, env) in GA for a in call.args)):
                return None
            return lst([GA[canon(a, env)] for a in call.args])

        def block(stmts):
            out = []
            for st in stmts:
                if single_name_assign(st):
                    v = canon(st.value, env)
                    if v in BINDS:
                        den, ctor = BINDS[v]
                    elif call_args(st.value, "§CSUB", "merge_subcluster") is not None:
                        den, ctor = "MERGED", "IBindMerged " + call_args(st.value, "§CSUB", "merge_subcluster")
                    elif call_args(st.value, "§CNODE", "insert_bf_subcluster") is not None:
                        den, ctor = "CSPLIT", "IBindChildSplit " + call_args(st.value, "§CNODE", "insert_bf_subcluster")
                    else:
                        fail(st, f"{qual}: local binding outside the recognised shapes")
                    if den in env.values():
                        fail(st, f"{qual}: second binding of the same kind")
                    bind(st, st.targets[0], den)
                    out.append(ctor)
                    continue
                if (isinstance(st, ast.Assign) and len(st.targets) == 1 and isinstance(st.targets[0], ast.Tuple)
                        and len(st.targets[0].elts) == 2 and canon(st.value, env) == "_split_node(§CNODE)"):
                    if "N1" in env.values():
                        fail(st, f"{qual}: second split")
                    bind(st, st.targets[0].elts[0], "N1")
                    bind(st, st.targets[0].elts[1], "N2")
                    out.append("ISplitClosestNode")
                    continue
                if isinstance(st, ast.If):
                    t = canon(st.test, env)
                    if st.orelse or t not in IFS:
                        fail(st, f"{qual}: test outside the recognised shapes / else branch")
                    out.append(f"{IFS[t]} {lst(block(st.body))}")
                    continue
                if isinstance(st, ast.Return) and st.value is not None:
                    v = st.value
                    if isinstance(v, ast.Constant) and isinstance(v.value, bool):
                        out.append("IReturn " + ("RetTrue" if v.value else "RetFalse"))
                        continue
                    if (isinstance(v, ast.Compare) and len(v.ops) == 1 and type(v.ops[0]) in CMP
                            and canon(v.left, env) == "len(self._subclusters)"
                            and canon(v.comparators[0], env) == "self.branching_factor"):
                        out.append(f"IReturn (RetLenCmpBf {CMP[type(v.ops[0])]})")
                        continue
                    fail(st, f"{qual}: returned value outside the recognised shapes")
                s = canon(st, env)
                if isinstance(st, ast.Expr):
                    if s == "self.append_subcluster(§GSub)":
                        out.append("IAppendArg")
                        continue
                    if s == "self.update_split_subclusters(§CSUB, §N1, §N2)":
                        out.append("IUpdateSplit")
                        continue
                    if s == "§CSUB.update(§GSub)":
                        out.append("IUpdateClosest UInserted")
                        continue
                if (isinstance(st, ast.Assign) and len(st.targets) == 1
                        and canon(st.targets[0], env) == "self._packed_centroids_buf[§CI]"
                        and canon(st.value, env) in ROWS):
                    out.append(f"IRefreshClosestRow {ROWS[canon(st.value, env)]}")
                    continue
                fail(st, f"{qual}: statement outside the recognised shapes")
            return out
        return block(body)

    # ---------------- Stage D: _split_node ----------------
    def split_plan():
        qual = "_split_node"
        params, body = stmts_of(qual, 1)
        env = {params[0]: "NODE"}
        bind = binder(qual, env)
        W = {"1": "W1", "2": "W2"}
        CHAIN = {"§N1._prev_leaf = §N2._prev_leaf": "CPrev1FromPrev2",
                 "§N2._prev_leaf._next_leaf = §N1": "CNextOfPrev2To1",
                 "§N1._next_leaf = §N2": "CNext1To2",
                 "§N2._prev_leaf = §N1": "CPrev2To1"}

        def once(st, den):
            if den in env.values():
                fail(st, f"{qual}: second binding of the same kind")

        def part(stmts):
            out = []
            for st in stmts:
                s = canon(st, env)
                m1 = re.fullmatch(r"§N([12])\.append_subcluster\(§ENT\)", s)
                m2 = re.fullmatch(r"§T([12])\.update\(§ENT\)", s)
                if isinstance(st, ast.Expr) and m1:
                    out.append(f"LAppendTo {W[m1.group(1)]}")
                elif isinstance(st, ast.Expr) and m2:
                    out.append(f"LUpdateTracking {W[m2.group(1)]}")
                else:
                    fail(st, f"{qual}: statement in the redistribution loop outside the recognised shapes")
            return out

        out = []
        for st in body:
            if single_name_assign(st):
                v = canon(st.value, env)
                if v == "§NODE.n_features":
                    den, ctor = "NF", "DBindNFeatures"
                elif v == "§NODE.branching_factor":
                    den, ctor = "BF", "DBindBf BfOfSplitNode"
                elif v == "_BFSubcluster(n_features=§NF)":
                    k = "2" if "T1" in env.values() else "1"
                    den, ctor = "T" + k, f"DNewTracking {W[k]}"
                elif v == "_BFNode(§BF, §NF)":
                    den, ctor = "N1", "DNewNode1"
                elif v == "§NODE":
                    den, ctor = "N2", "DAliasNode2"
                elif v == "§N2._subclusters.copy()":
                    den, ctor = "ENTRIES", "DCopyEntries"
                elif (isinstance(st.value, ast.Compare) and len(st.value.ops) == 1 and type(st.value.ops[0]) in CMP
                      and canon(st.value.left, env) == "§S1" and canon(st.value.comparators[0], env) == "§S2"):
                    den, ctor = "MASK", f"DMask {CMP[type(st.value.ops[0])]}"
                else:
                    fail(st, f"{qual}: local binding outside the recognised shapes")
                once(st, den)
                bind(st, st.targets[0], den)
                out.append(ctor)
                continue
            if (isinstance(st, ast.Assign) and len(st.targets) == 1 and isinstance(st.targets[0], ast.Tuple)
                    and len(st.targets[0].elts) == 4
                    and canon(st.value, env) == "jt_most_dissimilar_packed(§N2.packed_centroids, §NF)"):
                once(st, "I1")
                e = st.targets[0].elts
                if len({getattr(x, "id", None) for x in e}) != 4:
                    fail(st, f"{qual}: targets of jt_most_dissimilar_packed")
                for x, den in zip(e, ("I1", "I2", "S1", "S2")):
                    bind(st, x, den)
                out.append("DMostDissimilar")
                continue
            s = canon(st, env)
            if isinstance(st, ast.Assign) and len(st.targets) == 1:
                m = re.fullmatch(r"§T([12])\.child = §N([12])", s)
                if m and m.group(1) == m.group(2):
                    out.append(f"DSetChild {W[m.group(1)]}")
                    continue
                if s == "§MASK[§I1] = True":
                    out.append("DForceTrueAtIdx1")
                    continue
                if s == "§N2._subclusters = []":
                    out.append("DResetNode2")
                    continue
            if isinstance(st, ast.If) and canon(st.test, env) == "§N2.is_leaf" and not st.orelse:
                steps = []
                for c in st.body:
                    cs = canon(c, env)
                    if not (isinstance(c, ast.Assign) and cs in CHAIN):
                        fail(c, f"{qual}: statement in the leaf-chain splice outside the recognised shapes")
                    steps.append(CHAIN[cs])
                out.append(f"DIfLeaf {lst(steps)}")
                continue
            if (isinstance(st, ast.For) and not st.orelse and isinstance(st.target, ast.Tuple)
                    and len(st.target.elts) == 2 and canon(st.iter, env) == "enumerate(§ENTRIES)"):
                once(st, "IDX")
                bind(st, st.target.elts[0], "IDX")
                bind(st, st.target.elts[1], "ENT")
                if not (len(st.body) == 1 and isinstance(st.body[0], ast.If)
                        and canon(st.body[0].test, env) == "§MASK[§IDX]" and st.body[0].orelse):
                    fail(st, f"{qual}: the loop body is not `if node1_closer[idx]: ... else: ...`")
                out.append(f"DLoop {lst(part(st.body[0].body))} {lst(part(st.body[0].orelse))}")
                continue
            if isinstance(st, ast.Return):
                m = re.fullmatch(r"return \(?§T([12]), §T([12])\)?", s)
                if m:
                    out.append(f"DReturn {W[m.group(1)]} {W[m.group(2)]}")
                    continue
            fail(st, f"{qual}: statement outside the recognised shapes")
        return out

    add_to = buf_plan("_BFSubcluster.add_to_n_samples_and_linear_sum")
    replace = buf_plan("_BFSubcluster.replace_n_samples_and_linear_sum")
    upd = update_plan()
    mrg = merge_plan()
    app = node_plan("_BFNode.append_subcluster", ["EArg"])
    usp = node_plan("_BFNode.update_split_subclusters", ["OLD", "ENew1", "ENew2"])
    ins = insert_plan()
    spl = split_plan()
    hdr = ("(* GENERATED by /verif/translator/py2coq.py from bblean/bitbirch.py (_BFSubcluster.update / "
           "add_to_n_samples_and_linear_sum / replace_n_samples_and_linear_sum / merge_subcluster, "
           "_BFNode.append_subcluster / update_split_subclusters / insert_bf_subcluster, _split_node) "
           "— do not edit. *)\nFrom BB Require Import Model.TreePlan.\nOpen Scope Z_scope.\n")
    return (hdr
            + "\n(* _BFSubcluster *)\n"
            + f"Definition add_to_body : list buf_step :=\n  {lst(add_to)}.\n"
            + f"Definition replace_body : list buf_step :=\n  {lst(replace)}.\n"
            + f"Definition update_body : list upd_step :=\n  {lst(upd)}.\n"
            + f"Definition merge_body : list merge_step :=\n  {lst(mrg)}.\n"
            + "\n(* _BFNode *)\n"
            + f"Definition append_body : list node_step :=\n  {lst(app)}.\n"
            + f"Definition update_split_body : list node_step :=\n  {lst(usp)}.\n"
            + f"Definition insert_body : list ins_step :=\n  {lst(ins)}.\n"
            + "\n(* _split_node *)\n"
            + f"Definition split_node_body : list sn_step :=\n  {lst(spl)}.\n")


def write_if_changed(path: Path, text: str):
    if path.exists() and path.read_text() == text:
        return False
    path.write_text(text)
    return True


def gen_reset():
    """BitBirch.reset (bblean/bitbirch.py): which attributes of the estimator it writes, next to the
    attributes BitBirch.set_merge writes (= where the merge configuration lives).  reset may consist of a
    docstring, assignments `self.<attr chain> = <constant>` and `if self.<attr> is not None:` blocks of such
    assignments without else; anything else (a call, a loop, del, an assignment of a non-constant) is a
    failed translation — a call could change the configuration unseen."""
    tree = ast.parse((REPO / "bblean/bitbirch.py").read_text())
    reset = find_func(tree, "BitBirch.reset")
    setm = find_func(tree, "BitBirch.set_merge")
    if [p.arg for p in reset.args.args] != ["self"] or reset.args.kwonlyargs or reset.args.vararg or reset.args.kwarg:
        raise Unsupported("reset: parameters")
    if reset.decorator_list:
        raise Unsupported("reset: decorators")

    def chain(t):
        parts = []
        while isinstance(t, ast.Attribute):
            parts.append(t.attr)
            t = t.value
        if not (isinstance(t, ast.Name) and t.id == "self") or not parts:
            raise Unsupported(f"reset: target {ast.unparse(t)} is not an attribute of self")
        return list(reversed(parts))

    writes, clears = [], []

    def assign(st, top):
        if not (isinstance(st, ast.Assign) and len(st.targets) == 1 and isinstance(st.value, ast.Constant)
                and (st.value.value is None or type(st.value.value) is int)):
            raise Unsupported(f"reset: statement `{ast.unparse(st)}`")
        c = chain(st.targets[0])
        writes.append(c[0])
        if top and len(c) == 1:
            clears.append((c[0], repr(st.value.value)))

    body = list(reset.body)
    if body and isinstance(body[0], ast.Expr) and isinstance(body[0].value, ast.Constant) \
            and isinstance(body[0].value.value, str):
        body = body[1:]
    for st in body:
        if isinstance(st, ast.If):
            t = st.test
            if st.orelse or not (isinstance(t, ast.Compare) and len(t.ops) == 1 and isinstance(t.ops[0], ast.IsNot)
                                 and isinstance(t.comparators[0], ast.Constant) and t.comparators[0].value is None
                                 and isinstance(t.left, ast.Attribute)):
                raise Unsupported(f"reset: condition `{ast.unparse(t)}`")
            chain(t.left)
            for s2 in st.body:
                assign(s2, False)
        else:
            assign(st, True)
    cfg = []
    for n in ast.walk(setm):
        tg = n.targets if isinstance(n, ast.Assign) else [n.target] if isinstance(n, (ast.AugAssign, ast.AnnAssign)) else []
        for t in tg:
            for y in ast.walk(t):
                if isinstance(y, ast.Attribute) and isinstance(y.value, ast.Name) and y.value.id == "self":
                    if y.attr not in cfg:
                        cfg.append(y.attr)
    # a later top-level write of the same attribute wins
    last = {}
    for a, v in clears:
        last[a] = v
    q = lambda x: '"' + x + '"'
    out = [HEADER.format(src="bblean/bitbirch.py (BitBirch.reset, BitBirch.set_merge)"),
           "From Coq Require Import List.\nImport ListNotations.\nOpen Scope string_scope.\n",
           "(* root attributes of self that reset() assigns (directly or through self.<root>.<field>) *)",
           "Definition reset_writes : list string := [" + "; ".join(q(a) for a in dict.fromkeys(writes)) + "].",
           "(* unconditional `self.<attr> = <constant>` of reset(), final value *)",
           "Definition reset_clears : list (string * string) := ["
           + "; ".join(f"({q(a)}, {q(v)})" for a, v in last.items()) + "].",
           "(* attributes of self that set_merge() assigns: where the merge configuration lives *)",
           "Definition config_attrs : list string := [" + "; ".join(q(a) for a in cfg) + "].", ""]
    return "\n".join(out)


def main():
    """Each module is translated independently.  A module that cannot be translated is
    replaced by a file that does not compile (fail-closed): every proof that depends on it
    breaks, nothing else does."""
    OUT.mkdir(parents=True, exist_ok=True)
    status = {}
    simfuncs = {}

    def attempt(name, fn):
        try:
            text = fn()
            status[name] = "ok"
        except (Unsupported, SyntaxError, FileNotFoundError) as e:
            status[name] = f"FAILED: {e}"
            reason = str(e).replace("*)", "* )")
            text = (f"(* TRANSLATION FAILED (tie broken): {reason} *)\n"
                    "Definition translation_of_this_module_failed : False := I.\n")
        write_if_changed(OUT / f"{name}.v", text)

    def sim():
        text, funcs = gen_sim()
        simfuncs.update(funcs)
        return text
    attempt("GSim", sim)
    if status["GSim"] == "ok":
        attempt("GMerges", lambda: gen_merges(simfuncs))
    else:
        attempt("GMerges", lambda: (_ for _ in ()).throw(Unsupported("GSim failed")))
    attempt("GMem", gen_mem)
    attempt("GMon", lambda: HEADER.format(src="bblean/_memory.py (monitor_rss_process)") + "\n" + gen_monitor_cond() + "\n")
    attempt("GMonOps", gen_monitor_ops)
    attempt("GUtil", gen_util)
    attempt("GMr", gen_mr)
    attempt("GMrDel", gen_mr_del)
    attempt("GCli", gen_cli)
    attempt("GCliVd", gen_cli_validate)
    attempt("GConfig", gen_config)
    attempt("GFit", gen_fit_plan)
    attempt("GTree", gen_tree_plan)
    attempt("GReset", gen_reset)
    for k, v in status.items():
        print(f"translate {k}: {v}")
    return 0 if all(v == "ok" for v in status.values()) else 1


if __name__ == "__main__":
    sys.exit(main())
